"""Compare the tag dispatch of TreeBuilder::step (normal form extracted from the source) with the transcription of
the standard's insertion-mode rows in ref/whatwg_dispatch.py.

For a concrete (insertion mode, tag kind, tag name) the guards of a normal-form path that test the mode or the token
are decided; the remaining paths, with their undecided guards, ordered effects and result, are the token's *handling
signature*.  Rules:
  D1  all tokens of one row of the standard have the same signature in that mode;
  D2  a token that no row of the mode lists has the signature of a fresh tag name of the same kind;
  D3  tokens of different rows have different signatures, and a listed token differs from the fresh name, except
      where the standard itself says so: a row marked "act as anything else" equals the fresh start tag (which falls
      to "anything else"), a row that shares its paragraph with "any other end tag" equals the fresh end tag, and in
      modes with a single "anything else" paragraph the fresh start and end tags are handled alike.
"""
import importlib.util
import os
import re

ROOT = os.path.dirname(os.path.dirname(os.path.abspath(__file__)))
TAG_ALT = re.compile(r"Tag\{kind:(\w+)(?:,name:atom:([\w-]+))?\}")
FRESH = "zz-unlisted"


def load_spec():
    spec = importlib.util.spec_from_file_location("whatwg_dispatch", os.path.join(ROOT, "ref", "whatwg_dispatch.py"))
    m = importlib.util.module_from_spec(spec)
    spec.loader.exec_module(m)
    return m


def decide(label, mode, kind, name, tok="p2"):
    """-> True / False / None (not a mode/token test)"""
    label = re.sub(r"#\d+$", "", label)
    if tok == "p2" and label.startswith("p1 matches "):
        alts = label[len("p1 matches "):].split("|")
        return mode in [a.strip() for a in alts]
    if tok != "p2":
        label = re.sub(r"\b%s\b" % tok, "p2", label)
    if label.startswith("p2 matches ") or label.startswith("p2.0 matches "):
        pat = label.split(" matches ", 1)[1]
        if kind not in ("StartTag", "EndTag"):
            # a non-tag token class: Comment, Eof, NullCharacter, Characters(NotSplit|Whitespace|NotWhitespace)
            for alt in _split_alts(pat):
                if alt.startswith("Tag("):
                    continue
                if alt in ("Eof", "NullCharacter"):
                    if alt == kind:
                        return True
                elif alt.startswith("Comment("):
                    if kind == "Comment":
                        return True
                elif alt.startswith("Characters("):
                    if kind.startswith("Characters("):
                        inner = alt[len("Characters("):-1].split(",")[0]
                        if inner in ("_", "..", kind[len("Characters("):-1]):
                            return True
                elif alt in ("_",):
                    return True
                else:
                    raise ValueError("unparsed token pattern: " + label)
            return False
        alts = TAG_ALT.findall(pat)
        if not alts:
            if pat.startswith("Tag("):
                raise ValueError("unparsed tag pattern: " + label)
            return False  # Characters / Comment / Eof / NullCharacter never match a tag token
        return any(k == kind and (n == "" or n == name) for k, n in alts)
    if kind not in ("StartTag", "EndTag") and label.startswith("p2.0."):
        return None
    m = re.fullmatch(r"\(p2\.0\.name (==|!=) atom:([\w-]+)\)", label)
    if m:
        return (name == m.group(2)) == (m.group(1) == "==")
    if label.startswith("p2.0.name matches "):
        alts = [a.strip() for a in label[len("p2.0.name matches "):].split("|")]
        if all(a.startswith("atom:") for a in alts):
            return ("atom:" + name) in alts
        raise ValueError("unparsed name pattern: " + label)
    m = re.fullmatch(r"\(p2\.0\.kind (==|!=) (\w+)\)", label)
    if m:
        return (kind == m.group(2)) == (m.group(1) == "==")
    return None


def _split_alts(pat):
    out, depth, cur = [], 0, ""
    for ch in pat:
        if ch in "({[":
            depth += 1
        elif ch in ")}]":
            depth -= 1
        if ch == "|" and depth == 0:
            out.append(cur.strip())
            cur = ""
        else:
            cur += ch
    out.append(cur.strip())
    return out


NON_TAG_KINDS = ["Comment", "Eof", "NullCharacter", "Characters(NotSplit)", "Characters(Whitespace)", "Characters(NotWhitespace)"]


def names_in(cells):
    out = set()
    for c in cells:
        for g in c["guards"]:
            for k, n in TAG_ALT.findall(g):
                if n:
                    out.add(n)
            for m in re.finditer(r"p2\.0\.name (?:==|!=|matches) ((?:atom:[\w-]+\|?)+)", g):
                for a in m.group(1).split("|"):
                    out.add(a[len("atom:"):].rstrip(")"))
    return out


def signature(cells, mode, kind, name, tok="p2"):
    sig = set()
    for c in cells:
        ok = True
        free = []
        for g, v in c["guards"].items():
            d = decide(g, mode, kind, name, tok)
            if d is None:
                free.append((g, v))
            elif d != v:
                ok = False
                break
        if ok:
            sig.add((tuple(sorted(free)), tuple((a[0], tuple(a[1])) for a in c["actions"]), c["ret"]))
    return frozenset(sig)


def describe(sig):
    if sig and all(len(x) == 2 for x in sig):
        acts = sorted({"; ".join(x[1][0]) + ((" {" + ",".join(x[1][1]) + "}") if x[1][1] else "") for x in sig})
        return "%d situations e.g. [%s]" % (len(sig), acts[0][:160] if acts else "")
    acts = sorted({"; ".join("%s(%s)" % (a, ",".join(args)) for a, args in s[1] if a != "self.debug_step") + " -> " + s[2] for s in sig})
    return "%d paths e.g. [%s]" % (len(sig), acts[0][:160] if acts else "")


def semantic_signature(cells, mode, kind, name):
    """the token's handling in the vocabulary of the standard's steps (lib/rowcmp.py): insensitive to a helper being written out;
    None when some action or guard has no translation (the raw signature is used then)"""
    from . import rowcmp
    tok = ("S:" if kind == "StartTag" else "E:") + name
    unmapped = []
    try:
        cps = rowcmp.code_paths(cells, mode, tok, unmapped.append)
        out = set()
        for conds, c in cps:
            st = rowcmp.translate(c, mode, tok)
            if st is None:
                continue
            if "close-p" in st and "p-in-button-scope" not in conds:
                out.add((tuple(sorted(dict(conds, **{"p-in-button-scope": True}).items())), rowcmp.canon(["close-p!" if x == "close-p" else x for x in st])))
                out.add((tuple(sorted(dict(conds, **{"p-in-button-scope": False}).items())), rowcmp.canon([x for x in st if x != "close-p"])))
            else:
                out.add((tuple(sorted(conds.items())), rowcmp.canon(st)))
    except (rowcmp.Untranslated, ValueError):
        return None
    if unmapped or not out:
        return None
    return frozenset(out)


def compare(cells, modes_in_code, report_ok, report_bad, foreign_cells=None):
    spec = load_spec()
    if foreign_cells is not None:
        spec.DISPATCH = dict(spec.DISPATCH, Foreign=spec.FOREIGN)
        spec.SPLIT_FALLTHROUGH = list(spec.SPLIT_FALLTHROUGH) + ["Foreign"]
        modes_in_code = set(modes_in_code) | {"Foreign"}
    n = 0
    universe = names_in(cells)
    if foreign_cells is not None:
        universe |= names_in([{"guards": {re.sub(r"\bp1\b", "p2", g): v for g, v in c["guards"].items()}} for c in foreign_cells])
    marks = {}
    plain = {}
    for m, rows in spec.DISPATCH.items():
        plain[m] = []
        for r in rows:
            if isinstance(r, tuple):
                marks[(m, r[1][0])] = r[0]
                r = r[1]
            plain[m].append(r)
            universe |= {t[2:] for t in r}
    universe.add(FRESH)
    for m in sorted(set(modes_in_code) - set(spec.DISPATCH)):
        report_bad("mode:" + m, "mode-unknown", "insertion mode %s of the code is not in the transcription of the standard" % m)
    for m in sorted(set(spec.DISPATCH) - set(modes_in_code)):
        report_bad("mode:" + m, "mode-missing", "insertion mode %s of the standard does not exist in the code" % m)
    same_ok = {(m, a, b) for m, a, b in spec.SAME_HANDLING} | {(m, b, a) for m, a, b in spec.SAME_HANDLING}
    for mode in sorted(spec.DISPATCH):
        if mode not in modes_in_code:
            continue
        rows = plain[mode]
        skip = set(spec.NOT_TRANSCRIBED.get(mode, []))
        kinds = [("E", "EndTag")] if mode in spec.END_TAGS_ONLY else [("S", "StartTag"), ("E", "EndTag")]
        sigs = {}
        sems = {}   # handling in the standard's vocabulary (insensitive to a helper being written out); None = not translatable

        def same(a, b):
            """one handling: equal raw signatures, or equal translations"""
            return sigs[a] == sigs[b] or (sems.get(a) is not None and sems.get(a) == sems.get(b))

        for kp, kind in kinds:
            for name in universe:
                if mode == "Foreign":
                    sigs[kp + ":" + name] = signature(foreign_cells, mode, kind, name, "p1")
                else:
                    sigs[kp + ":" + name] = signature(cells, mode, kind, name)
                    sems[kp + ":" + name] = semantic_signature(cells, mode, kind, name)
        listed = {}
        for i, r in enumerate(rows):
            for t in r:
                if t in listed:
                    report_bad("mode:%s/row:%s" % (mode, r[0]), "transcription", "token %s is listed in two rows of %s" % (t, mode))
                listed[t] = i
        bad = False
        for t, s in sigs.items():
            if not s and t not in skip:
                report_bad("mode:%s/token:%s" % (mode, t), "no-handling", "no path of step handles %s in mode %s" % (t, mode))
                bad = True
        # D1
        for i, r in enumerate(rows):
            r = [t for t in r if t not in skip and t[0] in [k for k, _ in kinds]]
            if not r:
                continue
            n += len(r)
            odd = [t for t in r if not same(t, r[0])]
            key = "mode:%s/row:%s" % (mode, r[0])
            if odd:
                bad = True
                report_bad(key, "row-split", "in %s the standard handles %s by one paragraph, but the code handles %s differently from %s: %s vs %s" % (
                    mode, ",".join(r), odd[0], r[0], describe(sigs[odd[0]]), describe(sigs[r[0]])))
            else:
                report_ok(key, "%d token(s) of the row share one handling" % len(r))
        # D2
        for kp, kind in kinds:
            fresh = sigs[kp + ":" + FRESH]
            others = sorted(t for t in sigs if t[0] == kp and t not in listed and t not in skip)
            n += len(others)
            odd = [t for t in others if not same(t, kp + ":" + FRESH)]
            key = "mode:%s/any-other-%s" % (mode, kind)
            if odd:
                bad = True
                report_bad(key, "unlisted-token-special-cased", "in %s the standard has no paragraph for %s, so it must be handled like any other %s; code: %s, any other: %s" % (
                    mode, ",".join(odd[:6]), kind, describe(sigs[odd[0]]), describe(fresh)))
            else:
                report_ok(key, "%d unlisted names are handled like a fresh name" % len(others))
        # D3
        reps = []
        for i, r in enumerate(rows):
            r = [t for t in r if t not in skip and t[0] in [k for k, _ in kinds]]
            if r:
                reps.append(r[0])
        for kp, kind in kinds:
            reps.append(kp + ":" + FRESH)
        fs, fe = "S:" + FRESH, "E:" + FRESH
        for i, a in enumerate(reps):
            for b in reps[i + 1:]:
                n += 1
                want_equal = False
                if {a, b} == {fs, fe}:
                    want_equal = mode not in spec.SPLIT_FALLTHROUGH
                elif b in (fs, fe) and marks.get((mode, a)):
                    want_equal = (marks[(mode, a)] == "else" and b == fs) or (marks[(mode, a)] == "other-end" and b == fe)
                if (mode, a, b) in same_ok:
                    continue
                if want_equal and not same(a, b):
                    bad = True
                    report_bad("mode:%s/rows:%s~%s" % (mode, a, b), "rows-differ", "in %s the standard handles %s exactly like %s; code: %s vs %s" % (
                        mode, a, "anything else / any other tag" if b in (fs, fe) else b, describe(sigs[a]), describe(sigs[b])))
                if not want_equal and sigs[a] == sigs[b]:
                    bad = True
                    report_bad("mode:%s/rows:%s~%s" % (mode, a, b), "rows-merged", "in %s the standard handles %s and %s by different paragraphs, the code handles them identically: %s" % (
                        mode, a, b, describe(sigs[a])))
        if not bad:
            report_ok("mode:" + mode, "%d rows distinct from each other and from the fall-through" % len(rows))
    return n
