"""Compare the tokenizer table extracted from html5ever's source with the transcription of the WHATWG state
machine in ref/whatwg_tokenizer.py.

Both sides are given a big-step semantics per (state, input item, guard valuation): reconsume chains are followed
until the item is consumed (or, at EOF, until the end-of-file token is emitted), effects are concatenated, and the
result is (effects per channel, state after).  This makes "create token; reconsume in X" equal to "create token with
the character; switch to X", which is how html5ever writes most of those rows.

Effects are compared per channel (output, temporary buffer, tag, comment, doctype, error-presence); effects on
different channels commute, effects that touch two channels (emit_tag, emit_temp, ...) appear in both.
"""
import importlib.util
import os

ROOT = os.path.dirname(os.path.dirname(os.path.abspath(__file__)))

WS_CH = "\t\n\x0c "
EOF = "EOF"


def load_spec():
    spec = importlib.util.spec_from_file_location("whatwg_tokenizer", os.path.join(ROOT, "ref", "whatwg_tokenizer.py"))
    m = importlib.util.module_from_spec(spec)
    spec.loader.exec_module(m)
    return m


# ---------------------------------------------------------------- atoms
def spec_class_chars(cls):
    if cls == "WS":
        return [(ord(c), ord(c)) for c in WS_CH]
    if cls == "UPPER":
        return [(65, 90)]
    if cls == "LOWER":
        return [(97, 122)]
    if cls == "ALPHA":
        return [(65, 90), (97, 122)]
    if cls in ("EOF", "ELSE"):
        return []
    if cls.startswith("WS") and len(cls) > 2:
        return spec_class_chars("WS") + [(ord(c), ord(c)) for c in cls[2:]]
    return [(ord(c), ord(c)) for c in cls]


def atoms_of(spec, code_step):
    cuts = {0, 0x110000}
    for rows in spec.SPEC.values():
        for r in rows:
            cl = r[0] if isinstance(r, tuple) else r.get("on")
            if cl:
                for lo, hi in spec_class_chars(cl):
                    cuts.add(lo)
                    cuts.add(hi + 1)
    for cells in code_step.values():
        for c in cells:
            for cl in c["classes"]:
                for lo, hi in cl:
                    cuts.add(lo)
                    cuts.add(hi + 1)
    cs = sorted(cuts)
    return [(a, b - 1) for a, b in zip(cs, cs[1:])]


def in_spec_class(cls, atom):
    if cls == "ELSE":
        return True
    if cls == "EOF":
        return atom == EOF
    if atom == EOF:
        return False
    return any(lo <= atom[0] and atom[1] <= hi for lo, hi in spec_class_chars(cls))


# ---------------------------------------------------------------- normalised effects
CH_OUT, CH_TEMP, CH_TAG, CH_COMMENT, CH_DOCTYPE, CH_ERR = "output", "temp-buffer", "tag", "comment", "doctype", "error"
CHANNELS = {
    "emit": (CH_OUT,), "emit_eof": (CH_OUT,), "charref": (CH_OUT, CH_TAG),
    "emit_tag": (CH_OUT, CH_TAG), "emit_comment": (CH_OUT, CH_COMMENT), "emit_doctype": (CH_OUT, CH_DOCTYPE), "emit_temp": (CH_OUT, CH_TEMP),
    "temp_clear": (CH_TEMP,), "temp_push": (CH_TEMP,),
    "new_tag": (CH_TAG,), "tag_name": (CH_TAG,), "new_attr": (CH_TAG,), "attr_name": (CH_TAG,), "attr_value": (CH_TAG,), "self_closing": (CH_TAG,),
    "new_comment": (CH_COMMENT,), "comment": (CH_COMMENT,),
    "new_doctype": (CH_DOCTYPE,), "doctype_name": (CH_DOCTYPE,), "force_quirks": (CH_DOCTYPE,), "id_empty": (CH_DOCTYPE,), "id": (CH_DOCTYPE,),
    "error": (CH_ERR,),
}


def norm_char(x, atom):
    """canonical descriptor of a character argument for this atom"""
    if atom != EOF and atom[0] == atom[1]:
        if x in ("c", chr(atom[0])):
            return "c"
        if x == "lower(c)":
            return "c" if not (65 <= atom[0] <= 90) else "lower(c)"
        return x
    if x == "lower(c)" and atom != EOF and not (atom[0] <= 90 and atom[1] >= 65):
        return "c"
    return x


def code_arg(a):
    if a.startswith("lit:'") and a.endswith("'"):
        body = a[5:-1]
        return bytes(body, "utf-8").decode("unicode_escape") if body.startswith("\\") and len(body) > 1 and body != "\\" else body
    return a


def code_str(a):
    s = a
    if s.startswith('"') and s.endswith('"'):
        s = s[1:-1]
    return s


class Unmapped(Exception):
    pass


def code_effects(actions, cdata):
    """code actions -> (effects, reconsume?)"""
    out = []
    reconsume = False
    for name, args in actions:
        if name in ("bad_char_error", "bad_eof_error", "emit_error"):
            out.append(("error",))
        elif name == "emit_char":
            out.append(("emit", code_arg(args[0])))
        elif name == "emit_eof":
            out.append(("emit_eof",))
        elif name == "create_tag":
            out.append(("new_tag", args[0]))
            out.append(("tag_name", code_arg(args[1])))
        elif name == "self.current_tag_name.push_char":
            out.append(("tag_name", code_arg(args[0])))
        elif name == "emit_current_tag":
            out.append(("emit_tag",))
        elif name == "emit_current_comment":
            out.append(("emit_comment",))
        elif name == "set self.current_tag_self_closing" and args == ["true"]:
            out.append(("self_closing",))
        elif name == "create_attribute":
            out.append(("new_attr",))
            out.append(("attr_name", code_arg(args[0])))
        elif name == "self.current_attr_name.push_char":
            out.append(("attr_name", code_arg(args[0])))
        elif name == "self.current_attr_value.push_char":
            out.append(("attr_value", code_arg(args[0])))
        elif name == "clear_temp_buf":
            out.append(("temp_clear",))
        elif name == "self.temp_buf.push_char":
            out.append(("emit", code_arg(args[0])) if cdata else ("temp_push", code_arg(args[0])))
        elif name == "emit_temp_buf":
            out.append(("cdata_flush",) if cdata else ("emit_temp",))
        elif name == "self.current_comment.clear":
            out.append(("new_comment", ""))
        elif name == "self.current_comment.push_char":
            out.append(("comment", code_arg(args[0])))
        elif name == "self.current_comment.push_slice":
            for ch in code_str(args[0]):
                out.append(("comment", ch))
        elif name == "assign self.current_doctype" and args == ["default()"]:
            out.append(("new_doctype",))
        elif name == "assign self.current_doctype.force_quirks" and args == ["true"]:
            out.append(("force_quirks",))
        elif name == "call option_push" and args[0] == "self.current_doctype.name":
            out.append(("doctype_name", code_arg(args[1])))
        elif name == "call option_push" and args[0].startswith("self.doctype_id("):
            out.append(("id", args[0][len("self.doctype_id("):-1], code_arg(args[1])))
        elif name == "clear_doctype_id":
            out.append(("id_empty", args[0]))
        elif name == "emit_current_doctype":
            out.append(("emit_doctype",))
        elif name == "start_consuming_character_reference":
            out.append(("charref",))
        elif name == "discard_tag":
            pass  # the standard has no counterpart: the next "create a new tag token" replaces the current one
        elif name == "set self.state":
            pass
        elif name == "set self.reconsume" and args == ["true"]:
            reconsume = True
        else:
            raise Unmapped("%s(%s)" % (name, ",".join(args)))
    return out, reconsume


def channels(effects, atom):
    ch = {}
    for e in effects:
        if e[0] == "cdata_flush":
            continue
        e2 = tuple(norm_char(x, atom) if i > 0 and isinstance(x, str) and e[0] not in ("new_tag", "id_empty", "new_comment") and not (e[0] == "id" and i == 1) else x for i, x in enumerate(e))
        for c in CHANNELS[e2[0]]:
            ch.setdefault(c, []).append(e2)
    if ch.get(CH_ERR):
        ch[CH_ERR] = [("error",)]
    # the comment token's initial data: new_comment(s) == new_comment("") + comment(ch)...
    cm = []
    for e in ch.get(CH_COMMENT, []):
        if e[0] == "new_comment":
            cm.append(("new_comment", ""))
            cm += [("comment", x) for x in e[1]]
        else:
            cm.append(e)
    if cm:
        ch[CH_COMMENT] = cm
    return {k: v for k, v in ch.items() if v}


# ---------------------------------------------------------------- spec big step
GUARD_NAMES = {"appropriate_end_tag": "self.have_appropriate_end_tag()", "temp_is_script": 'self.temp_buf matches "script"',
               "adjusted_current_node_not_html": "self.sink.adjusted_current_node_present_but_not_in_html_namespace()"}


def spec_row(spec, state, atom, val):
    """-> (actions, transition, guards used)"""
    used = []
    for r in spec.SPEC[state]:
        if isinstance(r, dict):
            if "lookahead" in r:
                continue
            if in_spec_class(r["on"], atom):
                used.append(r["if"])
                if val.get(r["if"]):
                    return r["then"][0], r["then"][1], used
                # falls to the named else row
                e = r["else"]
                if in_spec_class(e[0], atom):
                    return e[1], e[2], used
            continue
        if in_spec_class(r[0], atom):
            return r[1], r[2], used
    raise KeyError("no row for %s in %s" % (atom, state))


def spec_big(spec, state, atom, val, limit=8):
    eff = []
    used = []
    cur = state
    for _ in range(limit):
        acts, tr, u = spec_row(spec, cur, atom, val)
        used += u
        eff += [("charref",) if a == ("charref",) else a for a in acts]
        if atom == EOF:
            if ("emit_eof",) in acts:
                return eff, "-", used
            if tr is None:
                raise KeyError("EOF row of %s neither emits EOF nor moves" % cur)
            cur = tr[1]
            continue
        if tr is None:
            return eff, cur, used
        if tr[0] == "to":
            return eff, tr[1], used
        cur = tr[1]
    raise KeyError("reconsume chain too long from %s" % state)


# ---------------------------------------------------------------- code big step
CDATA_STATES = ("CdataSection", "CdataSectionBracket", "CdataSectionEnd")


def code_cell(cells, atom, val):
    hits = []
    for c in cells:
        acq = c["acq"]
        if not acq or acq[-1][0] not in ("get_char", "pop_except_from") or acq[-1][1] != "CLASS":
            continue
        if any(a[1] not in ("false",) for a in acq[:-1]):
            continue
        if not any(lo <= atom[0] and atom[1] <= hi for cl in c["classes"] for lo, hi in cl):
            continue
        if any(val.get(g) != v for g, v in c["guards"].items()):
            continue
        hits.append(c)
    return hits


def code_big(tables, state, atom, val, limit=8):
    eff = []
    used = []
    cur = state
    for _ in range(limit):
        if atom == EOF:
            cells = [c for c in tables["eof_step"][cur] if all(val.get(g) == v for g, v in c["guards"].items())]
        else:
            cells = code_cell(tables["step"][cur], atom, val)
        if len(cells) != 1:
            raise KeyError("%d cells of %s match %s under %s" % (len(cells), cur, atom, val))
        c = cells[0]
        used += list(c["guards"])
        e, rec = code_effects(c["actions"], cur in CDATA_STATES)
        if cur in CDATA_STATES:
            names = [a[0] for a in c["actions"]]
            direct = [i for i, a in enumerate(names) if a in ("emit_char", "emit_eof")]
            if c["next"] not in CDATA_STATES and "emit_temp_buf" not in names:
                raise KeyError("%s leaves the CDATA states without emitting the buffered characters" % cur)
            if direct and ("emit_temp_buf" not in names or names.index("emit_temp_buf") > direct[0]):
                raise KeyError("%s emits before flushing the buffered characters" % cur)
        eff += e
        if atom == EOF:
            if ("emit_eof",) in e:
                return eff, "-", used
            if c["next"] == cur and c["ret"] != "Continue":
                raise KeyError("eof_step(%s) stops without emitting EOF" % cur)
            cur = c["next"]
            continue
        if not rec:
            return eff, c["next"], used
        cur = c["next"]
    raise KeyError("reconsume chain too long from %s" % state)


# ---------------------------------------------------------------- helper meanings and buffer invariants
HELPER_MEANING = {
    "emit_current_comment": {(("process_token_and_continue", ("CommentToken(take(self.current_comment))",)),)},
    "emit_temp_buf": {(("emit_chars", ("take(self.temp_buf)",)),)},
    "clear_temp_buf": {(("self.temp_buf.clear", ()),)},
    "create_tag": {(("discard_tag", ()), ("self.current_tag_name.push_char", ("c",)), ("set self.current_tag_kind", ("kind",)))},
    "create_attribute": {(("finish_attribute", ()), ("self.current_attr_name.push_char", ("c",)))},
    "emit_eof": {(("process_token_and_continue", ("EOFToken",)),)},
    "emit_chars": {(("process_token_and_continue", ("CharacterTokens(b)",)),)},
    "emit_char": {(("process_token_and_continue", ("NullCharacterToken",)),), (("process_token_and_continue", ("CharacterTokens(from_char(«c»))",)),)},
    "bad_char_error": {(("emit_error", ()),)},
    "bad_eof_error": {(("emit_error", ()),)},
    "emit_current_doctype": {(("self.current_doctype.take", ()), ("process_token_and_continue", ("DoctypeToken(self.current_doctype.take())",)))},
    "discard_tag": {(("self.current_tag_name.clear", ()), ("set self.current_tag_self_closing", ("false",)), ("set self.current_tag_had_duplicate_attributes", ("false",)),
                     ("assign self.current_tag_attrs", ("new()",)))},
}


def check_helpers(tables, report_ok, report_bad):
    n = 0
    for h, want in sorted(HELPER_MEANING.items()):
        n += 1
        cells = tables["helpers"].get(h)
        if cells is None:
            report_bad("helper:" + h, "helper-missing", "helper %s, whose meaning the comparison with the standard relies on, does not exist" % h)
            continue
        got = {tuple((a[0], tuple(a[1])) for a in c["actions"]) for c in cells}
        if got != want:
            report_bad("helper:" + h, "helper-meaning", "helper %s does %s; the comparison with the standard assumes %s" % (h, sorted(got), sorted(want)))
        else:
            report_ok("helper:" + h, "helper has the meaning the comparison assumes")
    # emit_char: NUL is the only character delivered as NullCharacterToken
    ec = tables["helpers"].get("emit_char", [])
    nul = [c for c in ec if c["actions"] and c["actions"][0][1] == ["NullCharacterToken"]]
    if len(nul) != 1 or nul[0]["classes"] != [[[0, 0]]]:
        report_bad("helper:emit_char", "helper-meaning", "emit_char must deliver exactly U+0000 as NullCharacterToken")
    return n


def comment_maybe_dirty(tables):
    """code states in which current_comment may be non-empty on entry (forward may-analysis over all cells).
    Every state may be the initial one (TokenizerOpts.initial_state) with an empty comment."""
    dirty = set()
    changed = True
    while changed:
        changed = False
        for tab in ("step", "eof_step"):
            for st, cells in tables[tab].items():
                for c in cells:
                    for d0 in ([False, True] if st in dirty else [False]):
                        d = d0
                        for name, args in c["actions"]:
                            if name == "self.current_comment.clear" or name == "emit_current_comment":
                                d = False
                            elif name.startswith("self.current_comment."):
                                d = True
                        if d and c["next"] not in dirty:
                            dirty.add(c["next"])
                            changed = True
    return dirty


# ---------------------------------------------------------------- comparison
def show_atom(atom):
    if atom == EOF:
        return "EOF"
    lo, hi = atom

    def r(c):
        return repr(chr(c)) if 32 <= c < 127 else "U+%04X" % c
    return r(lo) if lo == hi else "[%s-%s]" % (r(lo), r(hi))


def compare(tables, report_ok, report_bad, notes=None):
    """Checks that the relation {(s, STATE_MAP[s])} extends to a bisimulation between the standard's machine and the code's:
    on every input class / EOF and every valuation of the three non-character guards, both sides have equal effects on
    every channel and move to states that are again related.  When the successors are not a mapped pair (the code
    skips a state of the standard) the pair of successors is added to the relation and checked in turn.
    Parse errors are outside C01 (the property lists tokens); differences in the error channel go to `notes`."""
    spec = load_spec()
    atoms = atoms_of(spec, tables["step"])
    inv = {v: k for k, v in spec.STATE_MAP.items()}
    n = 0
    code_states = set(tables["step"])
    for cs in sorted(code_states - set(inv) - set(spec.NO_COUNTERPART)):
        report_bad("state:" + cs, "state-unknown", "concrete state %s of the code has no counterpart in the standard" % cs)
    for ss in sorted(set(spec.STATE_MAP) ^ set(spec.SPEC)):
        report_bad("state:" + ss, "spec-incomplete", "state map and transcription disagree about %s" % ss)
    n += check_helpers(tables, report_ok, report_bad)
    dirty = comment_maybe_dirty(tables)
    vals = [{}]
    for g in sorted(GUARD_NAMES):
        vals = [dict(v, **{g: b}) for v in vals for b in (True, False)]
    work = []
    for sname in sorted(spec.SPEC):
        cname = spec.STATE_MAP[sname]
        if cname not in code_states:
            report_bad("state:" + sname, "state-missing", "the standard's %s state (%s) does not exist in the code" % (sname, cname))
            continue
        work.append((sname, cname, None))
    seen = {(a, b) for a, b, _ in work}
    while work:
        sname, cname, why = work.pop(0)
        key = ("state:" + sname) if why is None else "pair:%s~%s" % (sname, cname)
        rows = spec.SPEC[sname]
        pure_lookahead = not any(isinstance(r, tuple) and r[0] not in ("ELSE", "EOF") for r in rows) and any(isinstance(r, dict) and "lookahead" in r for r in rows)
        if pure_lookahead and why is not None:
            report_bad(key, "next-state", "%s: the code continues in %s where the standard continues in the look-ahead state %s" % (why, cname, sname))
            continue
        bad = []
        derived = []
        for atom in ([EOF] if pure_lookahead else atoms + [EOF]):
            results = {}
            for v in vals:
                cv = {GUARD_NAMES[g]: b for g, b in v.items()}
                try:
                    se, snext, _ = spec_big(spec, sname, atom, v)
                    ce, cnext, _ = code_big(tables, cname, atom, cv)
                except Unmapped as e:
                    bad.append((atom, v, "unmapped", "code action %s has no meaning in the standard's vocabulary" % e))
                    continue
                except KeyError as e:
                    bad.append((atom, v, "no-step", str(e).strip('"')))
                    continue
                n += 1
                sch, cch = channels(se, atom), channels(ce, atom)
                # clearing a temporary buffer that is dead: see rule temp_buf_dataflow
                ct = cch.get(CH_TEMP, [])
                st = sch.get(CH_TEMP, [])
                while ct and ct[-1] == ("temp_clear",) and len(ct) > len(st):
                    ct = ct[:-1]
                if ct:
                    cch[CH_TEMP] = ct
                else:
                    cch.pop(CH_TEMP, None)
                # "create a comment token whose data is empty" is a no-op where the comment buffer is known to be empty
                # (emit_current_comment takes it, see check_helpers; comment_maybe_dirty is the may-analysis)
                if cname not in dirty and sch.get(CH_COMMENT, [None])[0] == ("new_comment", "") and cch.get(CH_COMMENT, [None])[0] != ("new_comment", ""):
                    cch[CH_COMMENT] = [("new_comment", "")] + cch.get(CH_COMMENT, [])
                for chn in sorted(set(sch) | set(cch)):
                    if sch.get(chn, []) != cch.get(chn, []):
                        if chn == CH_ERR:
                            if notes is not None:
                                notes.add("%s on %s: parse error %s in the standard, %s in the code" % (sname, show_atom(atom), "raised" if sch.get(chn) else "not raised", "raised" if cch.get(chn) else "not raised"))
                            continue
                        bad.append((atom, v, "effects:" + chn, "standard %s, code %s" % (sch.get(chn, []), cch.get(chn, []))))
                if snext == "-" or cnext == "-":
                    if snext != cnext:
                        bad.append((atom, v, "next-state", "one side ends the stream, the other continues (%s / %s)" % (snext, cnext)))
                elif spec.STATE_MAP.get(snext) != cnext and (snext, cnext) not in seen:
                    seen.add((snext, cnext))
                    derived.append((snext, cnext, "%s on %s" % (sname, show_atom(atom))))
        if bad:
            # keep one difference per (kind) with distinct guard valuations folded
            a, v, kind, msg = bad[0]
            gv = sorted({tuple(sorted(x[1].items())) for x in bad if x[0] == a and x[2] == kind})
            report_bad(key, kind, "%s%s on %s: %s%s" % (sname, "" if why is None else " ~ " + cname + " (reached by " + why + ")", show_atom(a), msg,
                                                        (" (+%d more differences for this pair)" % (len(bad) - 1)) if len(bad) > 1 else ""))
        else:
            work += derived
            report_ok(key, "equal effects on every channel for %d input classes + EOF x %d guard valuations%s" % (len(atoms), len(vals), "" if why is None else "; pair added because of " + why))
    n += compare_lookahead(spec, tables, report_ok, report_bad)
    return n


def equivalent_after(spec, tables, snext, cnext):
    """EOF big-steps end in '-' on both sides; otherwise successor states must correspond"""
    return snext == "-" and cnext == "-"


def compare_lookahead(spec, tables, report_ok, report_bad):
    """MarkupDeclarationOpen / AfterDOCTYPEName keyword rows"""
    n = 0
    for sname in sorted(spec.SPEC):
        rows = [r for r in spec.SPEC[sname] if isinstance(r, dict) and "lookahead" in r]
        if not rows:
            continue
        cname = spec.STATE_MAP[sname]
        cells = tables["step"][cname]
        bad = []
        for r in rows:
            label = 'eat("%s",%s)' % (r["lookahead"], "eq" if r["exact"] else "eq_ignore_ascii_case")
            hit = [c for c in cells if c["acq"] and c["acq"][-1] == [label, "true"]]
            n += 1
            if not hit:
                if "else" in r:
                    pass
                else:
                    bad.append("keyword %r is not looked for" % r["lookahead"])
                    continue
            for c in hit:
                if any(a[1] != "false" for a in c["acq"][:-1]):
                    bad.append("keyword %r row is reached after another keyword matched" % r["lookahead"])
                e, rec = code_effects(c["actions"], False)
                e = [x for x in e if x != ("temp_clear",)]
                want = r["then"]
                if "if" in r:
                    g = GUARD_NAMES[r["if"]]
                    if c["guards"].get(g) is not True:
                        bad.append("keyword %r is accepted without the guard %s" % (r["lookahead"], r["if"]))
                if channels(e, EOF) != channels(list(want[0]), EOF) or spec.STATE_MAP[want[1][1]] != c["next"] or rec:
                    bad.append("keyword %r: standard %s -> %s, code %s -> %s" % (r["lookahead"], want[0], want[1][1], e, c["next"]))
        # the else row: nothing consumed
        els = [r for r in spec.SPEC[sname] if isinstance(r, tuple) and r[0] == "ELSE"][0]
        if sname == "MarkupDeclarationOpen":
            n += 1
            fall = [c for c in cells if c["acq"] and all(a[1] == "false" for a in c["acq"])]
            if not fall:
                bad.append("no fall-through row")
            for c in fall:
                e, rec = code_effects(c["actions"], False)
                if channels(e, EOF) != channels(list(els[1]), EOF) or c["next"] != spec.STATE_MAP[els[2][1]] or rec:
                    bad.append("fall-through: standard %s -> %s, code %s -> %s" % (els[1], els[2][1], e, c["next"]))
        for r in rows:
            if "else" in r:
                # without the guard the standard consumes the keyword into a new comment and continues in the bogus
                # comment state; the code does not consume it: equal iff BogusComment appends each of its characters
                n += 1
                acts, tr = r["else"]
                if [a for a in acts if a[0] == "new_comment"] != [("new_comment", r["lookahead"])] or tr != ("to", "BogusComment"):
                    bad.append("transcription changed: unguarded %r row" % r["lookahead"])
                for ch in sorted(set(r["lookahead"])):
                    try:
                        e, nx, _ = code_big(tables, spec.STATE_MAP["BogusComment"], (ord(ch), ord(ch)), {})
                    except KeyError as ex:
                        bad.append(str(ex))
                        continue
                    if channels(e, (ord(ch), ord(ch))) != {CH_COMMENT: [("comment", "c")]} or nx != spec.STATE_MAP["BogusComment"]:
                        bad.append("BogusComment does not append %r unchanged, so not consuming %r differs from the standard" % (ch, r["lookahead"]))
                unguarded = [c for c in cells if c["guards"].get(GUARD_NAMES[r["if"]]) is False and c["ret"] != "Suspend"]
                for c in unguarded:
                    e, rec = code_effects(c["actions"], False)
                    want = [a for a in acts if a[0] != "new_comment"] + [("new_comment", "")]
                    if channels(e, EOF) != channels(want, EOF) or c["next"] != spec.STATE_MAP["BogusComment"] or rec:
                        if not (c["acq"] and c["acq"][-1][1] == "true"):
                            bad.append("unguarded fall-through: standard %s -> BogusComment, code %s -> %s" % (want, e, c["next"]))
        if bad:
            report_bad("lookahead:" + sname, "lookahead", "; ".join(bad[:3]))
        else:
            report_ok("lookahead:" + sname, "%d keyword rows and the fall-through equal the standard's" % len(rows))
    return n
