"""Rule runner: obligations, known findings, evidence."""
import importlib
import json
import os
import sys
import time
import traceback

from . import facts as factsmod
from .mir import Mir, AnchorMissing
from .ast import Ast

VERIF = factsmod.VERIF


class Ctx:
    def __init__(self, prop, tier, facts_dir, tree_hash, config=""):
        self.prop = prop
        self.tier = tier
        # "" = default features; "all-features" = second pass of the thorough tier (ALL_FEATURES)
        self.config = config
        self.facts_dir = facts_dir
        self.tree_hash = tree_hash
        self.obs = []
        self.floors = {}
        self.rules = {}
        self.analysed = {}
        self._mir = None
        self._ast = None
        self.notes = []

    @property
    def mir(self):
        if self._mir is None:
            self.ast  # (detects renames)
            self._mir = Mir(self.facts_dir, factsmod.CRATES, getattr(self, "_renames", None))
        return self._mir

    @property
    def ast(self):
        if self._ast is None:
            self._ast = Ast(self.facts_dir, factsmod.CRATES)
            try:
                self._ast.known = {c: set(v) for c, v in self.ref("fn_names.json").items()}
            except (OSError, ValueError):
                self._ast.known = None
            # private fields / functions renamed since the review are read under their reviewed names (lib/renames.py)
            self._renames = {}
            try:
                from . import renames
                refn = self.ref("names.json")
                for c in factsmod.CRATES:
                    fr, fnr = renames.detect(self._ast.crates[c], refn.get(c, {}))
                    if fr or fnr:
                        renames.apply_ast(self._ast.crates[c], fr, fnr)
                        self._renames[c] = (fr, fnr)
                        self.notes.append("%s: renamed since the review and read under the reviewed name: %s" % (c, ", ".join("%s (was %s)" % kv for kv in list(fr.items()) + list(fnr.items()))))
                if self._renames:
                    from . import flat as _fl
                    _fl.set_ret_family(self._ast.crates.values())
            except (OSError, ValueError):
                pass
        return self._ast

    def tables(self, which):
        """flattened tables of the html / xml tokenizer (cached per run)"""
        if not hasattr(self, "_tables"):
            self._tables = {}
        if which not in self._tables:
            from . import machine as mc

            known = None
            refh = None
            try:
                R = self.ref(which + "_tokenizer.json")
                known = set(R.get("helpers", {})) | set(R.get("charref", {})) | {k.split("::")[-1] for k in R.get("not_tabulated", {})}
                refh = R.get("helpers", {})
            except (OSError, ValueError):
                pass
            self._tables[which] = mc.tokenizer_tables(self.ast, which, known, refh)
            if self._tables[which].get("folded"):
                self.notes.append("%s tokenizer: reviewed straight-line helpers that no longer exist are recognised where their body is written out: %s" % (which, ", ".join(self._tables[which]["folded"])))
            if self._tables[which].get("inlined_new"):
                self.notes.append("%s tokenizer: private methods not in the reviewed reference were inlined at their call sites: %s" % (which, ", ".join(self._tables[which]["inlined_new"])))
        return self._tables[which]

    def ref(self, name):
        if self.config:
            p = os.path.join(VERIF, "ref", self.config, name)
            if os.path.exists(p):
                return json.load(open(p))
        return json.load(open(os.path.join(VERIF, "ref", name)))

    def rule(self, rid, text):
        self.rules[rid] = text

    def ob(self, rule, key, ok, detail="", where=""):
        """record one obligation.  key: semantic, no line numbers."""
        self.obs.append({"rule": rule, "key": key, "verdict": "holds" if ok else "violated", "detail": detail, "where": where})
        return ok

    def advise(self, rule, key, detail="", where=""):
        """record that a function's normal form no longer equals the reviewed reference.  This is NOT a verdict on the
        property: a behaviour-preserving rewrite in an idiom the canonical forms do not cover looks the same.  It is
        reported (evidence, a REVIEW line on stdout) and the check stays green; the fact rules and the comparisons with the
        transcribed standard decide."""
        self.obs.append({"rule": rule, "key": key, "verdict": "unreviewed-change", "detail": detail, "where": where})
        return True

    def floor(self, rule, name, count, minimum):
        """fail closed when a rule matched fewer instances than were confirmed by hand"""
        self.floors["%s.%s" % (rule, name)] = {"count": count, "floor": minimum}
        if count < minimum:
            self.ob(rule, "ANCHOR-MISSING/%s" % name, False, "matched %d instances, floor %d: the rule would pass vacuously" % (count, minimum))

    def under(self, rule, fn):
        """run a rule function written for a sibling property, reporting its obligations under `rule` of this one"""
        ob, floor = self.ob, self.floor
        self.ob = lambda r, *a, **kw: ob(rule, *a, **kw)
        self.floor = lambda r, *a, **kw: floor(rule, *a, **kw)
        try:
            return fn()
        finally:
            del self.ob
            del self.floor

    def guard(self, rule, name, fn):
        """run fn(); an unresolved anchor is a violation of the rule (fail closed)"""
        try:
            return fn()
        except AnchorMissing as e:
            self.ob(rule, "ANCHOR-MISSING/%s" % name, False, str(e))
        except Exception as e:  # extraction error: fail closed, keep going
            self.ob(rule, "ANALYSIS-ERROR/%s" % name, False, "%s: %s" % (type(e).__name__, e) + " | " + traceback.format_exc(limit=3).replace("\n", " / "))
        return None


def load_known():
    p = os.path.join(VERIF, "known_findings.json")
    if not os.path.exists(p):
        return {"findings": [], "fixed": []}
    return json.load(open(p))


def run_check(prop, tier):
    t0 = time.time()
    seed = int(os.environ.get("VERIF_SEED", "0") or 0)
    mod = importlib.import_module("rules." + prop)
    level = getattr(mod, "LEVEL", "other")
    facts_dir, h = factsmod.ensure_facts()
    ctx = Ctx(prop, tier, facts_dir, h)
    try:
        mod.run(ctx)
    except Exception as e:
        ctx.ob("runner", "ANALYSIS-ERROR/run", False, "%s: %s | %s" % (type(e).__name__, e, traceback.format_exc(limit=4).replace("\n", " / ")))
    configs = ["default features, host target"]
    if tier == "thorough":
        # second pass: the same rules over the facts of the build with every optional feature that changes library code
        try:
            d2, h2 = factsmod.ensure_facts(features=factsmod.ALL_FEATURES)
            ctx2 = Ctx(prop, tier, d2, h2, config="all-features")
            mod.run(ctx2)
            for o in ctx2.obs:
                o["key"] = "all-features: " + o["key"]
            ctx.obs += ctx2.obs
            ctx.floors.update({"all-features: " + k: v for k, v in ctx2.floors.items()})
            ctx.notes += ["all-features: " + x for x in ctx2.notes]
            ctx.analysed["all_features_tree_hash"] = h2
            configs.append("features " + factsmod.ALL_FEATURES)
        except Exception as e:
            ctx.ob("runner", "ANALYSIS-ERROR/all-features", False, "%s: %s | %s" % (type(e).__name__, e, traceback.format_exc(limit=4).replace("\n", " / ")))
    known = load_known()
    kf = {(f["property"], f["rule"], f["key"]): f for f in known.get("findings", []) if f.get("status", "finding") == "finding"}
    violations = []
    reported_known = []
    for o in ctx.obs:
        if o["verdict"] != "violated":
            continue
        base = o["key"][len("all-features: "):] if o["key"].startswith("all-features: ") else o["key"]  # the same finding seen in the second configuration
        k = (prop, o["rule"], base)
        if k in kf:
            reported_known.append(o)
            print("KNOWN-FINDING: property=%s %s %s -- %s" % (prop, o["rule"], o["key"], kf[k].get("what", o["detail"])))
        else:
            violations.append(o)
    evdir = os.environ.get("HX_EVIDENCE") or os.path.join(VERIF, "evidence")
    os.makedirs(evdir, exist_ok=True)
    vpath = os.path.join(evdir, prop + ".violations.json")
    if violations:
        json.dump({"property": prop, "tree_hash": h, "violations": violations}, open(vpath, "w"), indent=1)
    elif os.path.exists(vpath):
        os.remove(vpath)
    holds = [o for o in ctx.obs if o["verdict"] == "holds"]
    advisory = [o for o in ctx.obs if o["verdict"] == "unreviewed-change"]
    distinct = len({(o["rule"], o["key"]) for o in ctx.obs})
    samples = []
    seen_rules = set()
    for o in ctx.obs:
        if o["rule"] not in seen_rules:
            seen_rules.add(o["rule"])
            samples.append(o)
    samples = samples[:40]
    cov = {
        "explanation": getattr(mod, "EXPLANATION", "").strip() or "static rules over MIR/AST facts, see DESIGN.md",
        "evaluations": len(ctx.obs),
        "distinct_nontrivial": distinct,
        "rule": "one obligation per rule instance found in the code (call site, table entry, state cell, field); distinct = distinct (rule,key) pairs; rules: "
        + "; ".join("%s: %s" % kv for kv in sorted(ctx.rules.items())),
        "samples": samples,
        "obligations": len(ctx.obs),
        "discharged": len(holds) + len(reported_known),
        "analysed": dict(ctx.analysed, tree_hash=h, crates=factsmod.CRATES, configs=configs),
        "floors": ctx.floors,
        "known_findings_reported": [o["rule"] + " " + o["key"] for o in reported_known],
        "unreviewed_changes": [{"rule": o["rule"], "key": o["key"], "detail": o["detail"][:400]} for o in advisory],
        "exhaustive": True,
        "notes": ctx.notes,
    }
    extra = getattr(mod, "coverage_extra", None)
    if extra:
        cov.update(extra(ctx))
    ev = {
        "property_id": prop,
        "tier": tier,
        "seed": seed,
        "level": level,
        "coverage": cov,
        "assumptions": getattr(mod, "ASSUMPTIONS", []),
        "wall_s": round(time.time() - t0, 2),
        "violations": len(violations),
    }
    json.dump(ev, open(os.path.join(evdir, prop + ".json"), "w"), indent=1)
    print("%s: %d obligations, %d hold, %d known findings, %d violations%s (%.1fs, tree %s)" % (
        prop, len(ctx.obs), len(holds), len(reported_known), len(violations), (", %d unreviewed changes" % len(advisory)) if advisory else "", time.time() - t0, h))
    for o in advisory[:12]:
        print("  REVIEW %s %s -- %s" % (o["rule"], o["key"], o["detail"][:300]))
    if violations:
        for o in violations:
            print("  violated %s %s -- %s %s" % (o["rule"], o["key"], o["detail"], o["where"]))
        print("VIOLATION property=%s replay=%s" % (prop, vpath))
        return 1
    return 0
