"""Canonical forms applied to the syntax trees right after loading (before any evaluator or rule looks).

flag_loops:   let mut f = false;                                   let f = ITER.any(|P| { LETS; C });
              for P in ITER { LETS; if C { f = true; break; } }  =>
  (the explicit form of an existence test; LETS are `let` statements without side effects of their own that the condition uses).
The loop form and the combinator form are the same search: both stop at the first element that satisfies C and leave f true
exactly when there is one.  Only this exact shape is rewritten - a loop that does anything else is left alone."""


def _is_false(e):
    return isinstance(e, dict) and ((e.get("k") == "Lit" and e.get("t") == "bool" and e.get("v") in (False, "false")) or (e.get("k") == "Path" and e.get("path") == "false"))


def _is_true(e):
    return isinstance(e, dict) and ((e.get("k") == "Lit" and e.get("t") == "bool" and e.get("v") in (True, "true")) or (e.get("k") == "Path" and e.get("path") == "true"))


def _flag_loop(let, stmt):
    if let.get("k") != "Let" or (let.get("pat") or {}).get("k") != "PIdent" or not let["pat"].get("mut") or not _is_false(let.get("init")) or let.get("else") is not None:
        return None
    flag = let["pat"]["name"]
    e = stmt.get("e") if stmt.get("k") == "ExprStmt" else None
    if not isinstance(e, dict) or e.get("k") != "For" or e.get("label") is not None:
        return None
    body = e["body"]
    if not body:
        return None
    lets, last = body[:-1], body[-1]
    if any(s.get("k") != "Let" or s.get("else") is not None for s in lets):
        return None
    cond = last.get("e") if last.get("k") == "ExprStmt" else None
    if not isinstance(cond, dict) or cond.get("k") != "If" or cond.get("else") is not None:
        return None
    then = cond["then"]
    if len(then) != 2:
        return None
    a, b = (then[0].get("e") or {}), (then[1].get("e") or {})
    if not (a.get("k") == "Assign" and (a.get("lhs") or {}).get("k") == "Path" and a["lhs"]["path"] == flag and _is_true(a.get("rhs"))):
        return None
    if not (b.get("k") == "Break" and b.get("label") is None and b.get("e") is None):
        return None
    closure = {"k": "Closure", "move": False, "params": [e["pat"]],
               "body": {"k": "Block", "label": None, "body": list(lets) + [{"k": "ExprStmt", "semi": False, "e": cond["cond"]}]} if lets else cond["cond"]}
    new_let = dict(let)
    new_let["pat"] = dict(let["pat"], mut=False)
    new_let["init"] = {"k": "MethodCall", "m": "any", "recv": e["iter"], "args": [closure], "turbofish": None}
    return new_let


def canon(node):
    """rewrite in place, bottom-up, every statement list"""
    if isinstance(node, list):
        for x in node:
            canon(x)
        if node and all(isinstance(x, dict) for x in node):
            i = 0
            while i + 1 < len(node):
                r = _flag_loop(node[i], node[i + 1]) if isinstance(node[i], dict) and isinstance(node[i + 1], dict) else None
                if r is not None:
                    node[i] = r
                    del node[i + 1]
                else:
                    i += 1
    elif isinstance(node, dict):
        for v in node.values():
            if isinstance(v, (dict, list)):
                canon(v)
