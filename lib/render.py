"""Structural (alpha-normalised) rendering of syntax trees: used for closures and for functions without a path normal form."""
import re

from .ast import is_log_block


# named scalar constants of the crate being rendered (set by lib/nf.area_nf / lib/machine.tokenizer_tables): uses are replaced by the value
CONSTS = {}
# private helpers that are not in the reviewed reference (name -> AST item): a call without arguments is rendered as its body
INLINE = {}
# ... and those with plain-name parameters: a call is rendered as the body with the arguments in place of the parameters
INLINE_ARGS = {}


def _inl(e):
    if e.get("k") == "MethodCall" and e["m"] in INLINE and not e["args"] and e["recv"].get("k") == "Path" and e["recv"]["path"] == "self":
        return INLINE[e["m"]]
    if e.get("k") == "Call" and not e["args"] and e["f"].get("k") == "Path" and e["f"]["path"].split("::")[-1] in INLINE and e["f"]["path"].split("::")[0] in ("Self", "self", e["f"]["path"]):
        return INLINE[e["f"]["path"].split("::")[-1]]
    return None


def _inl_args(e):
    """a call of a new private helper whose parameters are plain names: (item, argument expressions) or None"""
    if e.get("k") == "MethodCall" and e["m"] in INLINE_ARGS and e["args"] and e["recv"].get("k") == "Path" and e["recv"]["path"] == "self":
        it = INLINE_ARGS[e["m"]]
    elif e.get("k") == "Call" and e["args"] and e["f"].get("k") == "Path" and e["f"]["path"].split("::")[-1] in INLINE_ARGS and e["f"]["path"].split("::")[0] in ("Self", "self", e["f"]["path"]):
        it = INLINE_ARGS[e["f"]["path"].split("::")[-1]]
    else:
        return None
    ps = [p for p in it["sig"]["params"] if p.get("name") != "self"]
    if len(ps) != len(e["args"]) or any((p.get("pat") or {}).get("k") != "PIdent" for p in ps):
        return None
    return it, [p["pat"]["name"] for p in ps]


def _pat_names(p, out):
    k = p.get("k")
    if k == "PIdent":
        out.append(p["name"])
        if p.get("sub"):
            _pat_names(p["sub"], out)
    elif k in ("PRef",):
        _pat_names(p["pat"], out)
    elif k in ("PTuple", "PTupleStruct", "PSlice"):
        for e in p["elems"]:
            _pat_names(e, out)
    elif k == "PStruct":
        for f in p["fields"]:
            _pat_names(f["pat"], out)


def render(body_or_expr, params=(), subst=None, show=None, prefix="p", depth=None):
    depth = depth or [0]
    if show is None:
        from .flat import show
    """params: list of parameter patterns (positional names p1.. / a1..), subst: name -> text for captured values"""
    names = {}
    subst = subst or {}

    def nm(n):
        if n not in names:
            names[n] = "v%d" % (len([x for x in names.values() if x.startswith("v")]) + 1)
        return names[n]

    for i, p in enumerate(params):
        ns = []
        _pat_names(p, ns)
        for n in ns:
            names[n] = "%s%d" % (prefix, i + 1) if len(ns) == 1 else "%s%d_%d" % (prefix, i + 1, ns.index(n))
    def pat(p):
        k = p["k"]
        if k == "PIdent":
            if p["name"][:1].isupper():
                return p["name"]
            s = nm(p["name"])
            return s + ("@" + pat(p["sub"]) if p.get("sub") else "")
        if k == "PWild":
            return "_"
        if k == "PRest":
            return ".."
        if k == "PLit":
            return repr(p["lit"]["v"])
        if k == "PPath":
            return show({"k": "Path", "path": p["path"]})
        if k == "PRef":
            return pat(p["pat"])
        if k == "POr":
            return "|".join(sorted(pat(c) for c in p["cases"]))
        if k == "PTuple":
            return "(%s)" % ",".join(pat(e) for e in p["elems"])
        if k == "PTupleStruct":
            return "%s(%s)" % (p["path"].split("::")[-1], ",".join(pat(e) for e in p["elems"]))
        if k == "PStruct":
            return "%s{%s%s}" % (p["path"].split("::")[-1], ",".join(sorted("%s:%s" % (f["name"], pat(f["pat"])) for f in p["fields"])), ",.." if p.get("rest") else "")
        if k == "PRange":
            return "%s..=%s" % (ex(p["lo"]) if p.get("lo") else "", ex(p["hi"]) if p.get("hi") else "")
        if k == "PSlice":
            return "[%s]" % ",".join(pat(e) for e in p["elems"])
        return k

    def blk(b):
        out = []
        for s in b:
            k = s["k"]
            if k == "Let":
                init = ex(s["init"]) if s.get("init") is not None else ""
                els = (" else " + ex(s["else"])) if s.get("else") is not None else ""
                out.append("let %s=%s%s" % (pat(s["pat"]), init, els))
            elif k == "ExprStmt":
                if s["e"].get("k") == "Block" and is_log_block(s["e"]):
                    continue
                it = _inl(s["e"])
                if it is not None and s.get("semi"):
                    out.append(blk(it["body"]))
                    continue
                out.append(ex(s["e"]) + (";" if s.get("semi") else ""))
            elif k == "ItemStmt":
                itn = s["item"]
                if itn.get("k") == "Fn":
                    out.append("fn %s{%s}" % (itn["name"], blk(itn["body"])))
        return " ".join(out)

    def ex(e):
        if e is None:
            return ""
        k = e.get("k")
        if k == "Path":
            p = e["path"]
            if p in names:
                return names[p]
            if p in subst:
                return subst[p]
            if p in CONSTS and CONSTS[p].get("k") in ("Lit", "Unary", "Cast", "Paren"):
                return ex(CONSTS[p])
            return show(e)
        if k == "Lit":
            if e["t"] == "str":
                return '"' + e["v"] + '"'
            return repr(e["v"])
        if k == "Field":
            return ex(e["e"]) + "." + e["name"]
        if k in ("MethodCall", "Call") and _inl(e) is not None:
            return "{%s}" % blk(_inl(e)["body"])
        if k in ("MethodCall", "Call") and _inl_args(e) is not None and depth[0] < 3:
            it, pnames = _inl_args(e)
            sub2 = dict(subst)
            sub2.update(names)
            for pn, a in zip(pnames, e["args"]):
                sub2[pn] = ex(a).lstrip("*&")
            body = it["body"]
            depth[0] += 1
            try:
                if len(body) == 1 and body[0]["k"] == "ExprStmt" and not body[0].get("semi"):
                    return render(body[0]["e"], (), sub2, show, prefix, depth)
                return "{%s}" % render(body, (), sub2, show, prefix, depth)
            finally:
                depth[0] -= 1
        if k == "MethodCall":
            if e["m"] in ("parse_error", "emit_error", "expect") and e["args"]:
                return "%s.%s(_)" % (ex(e["recv"]), e["m"])
            return "%s.%s(%s)" % (ex(e["recv"]), e["m"], ",".join(ex(a) for a in e["args"]))
        if k == "Call":
            return "%s(%s)" % (ex(e["f"]), ",".join(ex(a) for a in e["args"]))
        if k == "Ref":
            return "&" + ex(e["e"])
        if k == "Unary":
            return e["op"] + ex(e["e"])
        if k == "Binary":
            return "(%s %s %s)" % (ex(e["l"]), e["op"], ex(e["r"]))
        if k == "Index":
            return "%s[%s]" % (ex(e["e"]), ex(e["i"]))
        if k == "Range":
            return "%s..%s%s" % (ex(e.get("lo")), "=" if e.get("closed") else "", ex(e.get("hi")))
        if k == "Cast":
            return "(%s as %s)" % (ex(e["e"]), e["ty"].replace(" ", ""))
        if k == "Tuple":
            return "(%s)" % ",".join(ex(x) for x in e["elems"])
        if k == "Array":
            return "[%s]" % ",".join(ex(x) for x in e["elems"])
        if k == "Try":
            return ex(e["e"]) + "?"
        if k == "Macro":
            if e["path"] in ("panic", "unreachable", "assert", "debug_assert", "format_args", "format"):
                return e["path"] + "!"
            return e["path"] + "!(" + re.sub(r"\s+", " ", e["tokens"]) + ")"
        if k == "Struct":
            return "%s{%s%s}" % (e["path"].split("::")[-1], ",".join("%s:%s" % (f["name"], ex(f["e"])) for f in e["fields"]), (",.." + ex(e["rest"])) if e.get("rest") else "")
        if k == "Closure":
            ps = []
            for p in e["params"]:
                ps.append(pat(p))
            return "|%s|%s" % (",".join(ps), ex(e["body"]))
        if k == "Block":
            if is_log_block(e):
                return "{}"
            return "{%s}" % blk(e["body"])
        if k == "If":
            return "if %s {%s}%s" % (ex(e["cond"]), blk(e["then"]), (" else " + ex(e["else"])) if e.get("else") else "")
        if k == "LetCond":
            return "let %s=%s" % (pat(e["pat"]), ex(e["e"]))
        if k == "Match":
            arms = []
            for a in e["arms"]:
                arms.append("%s%s=>%s" % (pat(a["pat"]), (" if " + ex(a["guard"])) if a.get("guard") else "", ex(a["body"])))
            return "match %s {%s}" % (ex(e["e"]), " , ".join(arms))
        if k == "Loop":
            return "loop{%s}" % blk(e["body"])
        if k == "While":
            return "while %s {%s}" % (ex(e["cond"]), blk(e["body"]))
        if k == "For":
            return "for %s in %s {%s}" % (pat(e["pat"]), ex(e["iter"]), blk(e["body"]))
        if k == "Return":
            return "return " + ex(e.get("e"))
        if k == "Break":
            return "break " + ex(e.get("e"))
        if k == "Continue":
            return "continue"
        if k == "Assign":
            return "%s=%s" % (ex(e["lhs"]), ex(e["rhs"]))
        if k == "Repeat":
            return "[%s;%s]" % (ex(e["e"]), ex(e["len"]))
        return show(e)


    if isinstance(body_or_expr, list):
        return blk(body_or_expr)
    return ex(body_or_expr)
