"""AST fact base (syn dump of the macro-expanded crates) and helpers."""
import json
import os
import re

from .mir import AnchorMissing

ATOM_RE = re.compile(r"ATOM_(LOCALNAME|NAMESPACE|PREFIX)__([0-9A-F_]*)$")


def decode_atom(path):
    """'::web_atoms::ATOM_LOCALNAME__70_72_65' -> ('LOCALNAME','pre'); None if not an atom path"""
    m = ATOM_RE.search(path)
    if not m:
        return None
    hexs = [h for h in m.group(2).split("_") if h]
    try:
        return (m.group(1), bytes(int(h, 16) for h in hexs).decode("utf-8"))
    except Exception:
        return None


NS_SHORT = {
    "http://www.w3.org/1999/xhtml": "html",
    "http://www.w3.org/2000/svg": "svg",
    "http://www.w3.org/1998/Math/MathML": "mathml",
    "http://www.w3.org/1999/xlink": "xlink",
    "http://www.w3.org/XML/1998/namespace": "xml",
    "http://www.w3.org/2000/xmlns/": "xmlns",
    "": "",
}


def walk(node, fn, _parents=None):
    """pre-order walk over dict/list JSON; fn(node) for every dict with 'k'.  If fn returns False, do not descend."""
    if isinstance(node, dict):
        if "k" in node:
            if fn(node) is False:
                return
        for v in node.values():
            if isinstance(v, (dict, list)):
                walk(v, fn)
    elif isinstance(node, list):
        for v in node:
            if isinstance(v, (dict, list)):
                walk(v, fn)


def find_all(node, pred):
    out = []

    def f(n):
        if pred(n):
            out.append(n)

    walk(node, f)
    return out


def is_log_block(n):
    """the expansion of log::trace!/debug!/...: a block whose first statement binds `lvl = ::log::Level::X`"""
    if n.get("k") == "Block":
        b = n["body"]
        if b and b[0].get("k") == "Let" and b[0]["pat"].get("name") == "lvl":
            return True
        # nested one level: { { let lvl ... } }
        if len(b) == 1 and b[0].get("k") == "ExprStmt" and is_log_block(b[0]["e"]):
            return True
    return False


def recv_path(e):
    """'self.opts.exact_errors' style dotted path for Field/Path/MethodCall chains, or None"""
    k = e.get("k")
    if k == "Path":
        return e["path"]
    if k == "Field":
        b = recv_path(e["e"])
        return None if b is None else b + "." + e["name"]
    if k == "MethodCall":
        b = recv_path(e["recv"])
        return None if b is None else b + "." + e["m"] + "()"
    if k == "Ref":
        return recv_path(e["e"])
    if k == "Unary" and e["op"] == "*":
        return recv_path(e["e"])
    if k == "Try":
        return recv_path(e["e"])
    return None


def pat_atoms(p, out=None):
    """all atoms (kind,value) mentioned in a pattern"""
    if out is None:
        out = []

    def f(n):
        if n.get("k") in ("PPath", "Path"):
            a = decode_atom(n["path"])
            if a:
                out.append(a)

    walk(p, f)
    return out


def expanded_names_in_pat(p):
    """set of (ns_short, local) for ExpandedName{ns:&ATOM,local:&ATOM} struct patterns inside p"""
    res = set()

    def f(n):
        if n.get("k") == "PStruct" and n["path"].endswith("ExpandedName"):
            ns = loc = None
            for fld in n["fields"]:
                at = pat_atoms(fld["pat"])
                if fld["name"] == "ns" and at:
                    ns = NS_SHORT.get(at[0][1], at[0][1])
                if fld["name"] == "local" and at:
                    loc = at[0][1]
            if loc is not None:
                res.add((ns, loc))
            return False

    walk(p, f)
    return res


class Ast:
    def __init__(self, facts_dir, crates):
        self.dir = facts_dir
        self.crates = {}
        for c in crates:
            self.crates[c] = json.load(open(os.path.join(facts_dir, c + ".ast.json")))["items"]
            from . import astcanon as _ac
            _ac.canon(self.crates[c])
        self._raw = {}
        from . import machine as _mc
        from . import flat as _fl
        _fl.set_ret_family(self.crates.values())
        _mc.set_universe([[v["name"] for v in it.get("variants", [])] for items in self.crates.values() for it in items if it.get("k") == "Enum"])

    def raw(self, relpath):
        if relpath not in self._raw:
            p = os.path.join(self.dir, "raw", relpath.replace("/", "__") + ".json")
            if not os.path.exists(p):
                raise AnchorMissing("raw file %s not extracted" % relpath)
            self._raw[relpath] = json.load(open(p))["items"]
        return self._raw[relpath]

    known = None  # crate -> set of function names of the reviewed tree (ref/fn_names.json), set by core.Ctx
    PRIVATE_VIS = ("", "pub(crate)", "pub(super)", "pub(self)", "pub(in crate)")

    def new_private(self, crate):
        """private, non-trait functions that the reviewed tree did not have (helpers extracted since), by unique name"""
        if not self.known or crate not in self.known:
            return {}
        if not hasattr(self, "_np"):
            self._np = {}
        if crate not in self._np:
            counts = {}
            for it in self.crates[crate]:
                if it["k"] == "Fn":
                    counts[it["name"]] = counts.get(it["name"], 0) + 1
            self._np[crate] = {it["name"]: it for it in self.crates[crate] if it["k"] == "Fn" and it.get("body") is not None and it["name"] not in self.known[crate]
                               and (it.get("vis") or "") in self.PRIVATE_VIS and not it.get("trait") and counts[it["name"]] == 1 and len(it["name"]) > 3}
        return self._np[crate]

    def written_out(self, crate, item, depth=0):
        """copy of a function item in which every call of a new private helper is replaced by a block: the helper's
        parameters bound by `let`, then its body (so that rules that read the syntax tree of `item` find what moved)"""
        np = self.new_private(crate)
        if not np or item.get("body") is None or item["name"] in np:
            return item
        if not hasattr(self, "_wo"):
            self._wo = {}
        k = (crate, id(item))
        if k in self._wo:
            return self._wo[k]
        import copy

        def tr(n, d):
            if isinstance(n, list):
                return [tr(x, d) for x in n]
            if not isinstance(n, dict):
                return n
            kk = n.get("k")
            callee = None
            args = None
            if kk == "MethodCall" and n["m"] in np and n["recv"].get("k") == "Path" and n["recv"]["path"] == "self":
                callee, args = np[n["m"]], n["args"]
            elif kk == "Call" and n["f"].get("k") == "Path" and n["f"]["path"].split("::")[-1] in np:
                callee, args = np[n["f"]["path"].split("::")[-1]], n["args"]
            if callee is not None and d < 4:
                params = [p for p in callee["sig"]["params"] if p.get("name") != "self"]
                if len(params) == len(args):
                    lets = [{"k": "Let", "pat": p["pat"], "init": tr(a, d), "else": None, "ty": None} for p, a in zip(params, args)]
                    return {"k": "Block", "label": None, "body": lets + tr(copy.deepcopy(callee["body"]), d + 1), "written_out": callee["name"]}
            return {kk2: tr(v, d) for kk2, v in n.items()}

        out = dict(item)
        out["body"] = tr(item["body"], 0)
        self._wo[k] = out
        return out

    def walkable(self, crate):
        """the crate's items for rules that read syntax trees: function bodies with the calls of helpers extracted since the
        review written out (never used for flattening: a `return` inside a written-out body would read as the caller's)"""
        if not hasattr(self, "_walkable"):
            self._walkable = {}
        if crate not in self._walkable:
            self._walkable[crate] = [self.written_out(crate, it) if it.get("k") == "Fn" else it for it in self.crates[crate]]
        return self._walkable[crate]

    def fns(self, crate, name=None, self_ty=None, mod=None, trait=None, items=None):
        out = []
        for it in (items if items is not None else self.crates[crate]):
            if it["k"] != "Fn":
                continue
            if name is not None and it["name"] != name:
                continue
            if self_ty is not None and (it.get("self_ty") is None or not re.match(self_ty + r"\b", it["self_ty"].replace(" ", ""))):
                continue
            if mod is not None and it["mod"] != mod and not it["mod"].endswith(mod):
                continue
            if trait is not None and (it.get("trait") is None or trait not in it["trait"]):
                continue
            out.append(self.written_out(crate, it) if items is None else it)
        return out

    def fn(self, crate, name, self_ty=None, mod=None, trait=None, items=None):
        fs = [f for f in self.fns(crate, name, self_ty, mod, trait, items) if f.get("body") is not None]
        if len(fs) != 1:
            raise AnchorMissing("AST fn %s::%s (self_ty=%s mod=%s) matches %d" % (crate, name, self_ty, mod, len(fs)))
        return fs[0]

    def items(self, crate, kind, name=None):
        return [it for it in self.crates[crate] if it["k"] == kind and (name is None or it.get("name") == name)]
