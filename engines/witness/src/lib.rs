//! Compile-fail witnesses (thorough tier of C11 / C12).  Each failing witness has a compiling twin that
//! differs only in the offending line, so a witness whose path is merely wrong cannot pass.
//! Run with `cargo +nightly test --doc --offline` (error codes are ignored on stable).

/// A non-atomic tendril must not cross threads.
/// ```compile_fail,E0277
/// fn assert_send<T: Send>() {}
/// assert_send::<tendril::Tendril<tendril::fmt::UTF8, tendril::NonAtomic>>();
/// ```
/// Twin: the atomic flavour and `SendTendril` are `Send`.
/// ```no_run
/// fn assert_send<T: Send>() {}
/// assert_send::<tendril::Tendril<tendril::fmt::UTF8, tendril::Atomic>>();
/// assert_send::<tendril::SendTendril<tendril::fmt::UTF8>>();
/// ```
pub struct NonAtomicIsNotSend;

/// No tendril is `Sync` (it has interior mutability for its header bits).
/// ```compile_fail,E0277
/// fn assert_sync<T: Sync>() {}
/// assert_sync::<tendril::Tendril<tendril::fmt::UTF8, tendril::Atomic>>();
/// ```
/// ```compile_fail,E0277
/// fn assert_sync<T: Sync>() {}
/// assert_sync::<tendril::Tendril<tendril::fmt::Bytes, tendril::NonAtomic>>();
/// ```
/// Twin:
/// ```no_run
/// fn assert_sync<T: Sync>() {}
/// assert_sync::<tendril::fmt::UTF8>();
/// ```
pub struct TendrilIsNotSync;

/// The unchecked primitives are `unsafe fn`.
/// ```compile_fail,E0133
/// let t = tendril::StrTendril::from_slice("héllo wörld, long enough to be on the heap");
/// let _u = t.unsafe_subtendril(1, 2);
/// ```
/// ```compile_fail,E0133
/// let mut t = tendril::StrTendril::from_slice("héllo");
/// t.unsafe_pop_front(2);
/// ```
/// ```compile_fail,E0133
/// let mut t = tendril::StrTendril::new();
/// t.push_bytes_without_validating(&[0xff]);
/// ```
/// ```compile_fail,E0133
/// let t = tendril::ByteTendril::from_slice(&[0xff][..]);
/// let _s: tendril::StrTendril = t.reinterpret_without_validating();
/// ```
/// Twin: the same calls compile inside `unsafe`.
/// ```no_run
/// let t = tendril::StrTendril::from_slice("héllo wörld, long enough to be on the heap");
/// let _u = unsafe { t.unsafe_subtendril(0, 1) };
/// let mut t2 = tendril::StrTendril::from_slice("hello");
/// unsafe { t2.unsafe_pop_front(2) };
/// let mut t3 = tendril::StrTendril::new();
/// unsafe { t3.push_bytes_without_validating(b"ok") };
/// let b = tendril::ByteTendril::from_slice(&b"ok"[..]);
/// let _s: tendril::StrTendril = unsafe { b.reinterpret_without_validating() };
/// ```
pub struct UncheckedPrimitivesAreUnsafe;

/// A UTF-8 tendril cannot be built from bytes without going through a checked (`try_*`) constructor.
/// ```compile_fail,E0308
/// let _t: tendril::StrTendril = tendril::StrTendril::from_slice(&[0xffu8][..]);
/// ```
/// Twin:
/// ```no_run
/// let _b: tendril::ByteTendril = tendril::ByteTendril::from_slice(&[0xffu8][..]);
/// assert!(tendril::StrTendril::try_from_byte_slice(&[0xffu8][..]).is_err());
/// ```
pub struct Utf8TendrilNeedsValidation;
