// hx-ast: parse a (macro-expanded or raw) Rust source file with syn and dump a
// normalised, span-free JSON form of every item: functions with their bodies,
// statics/consts with their initialisers, structs/enums with their fields.
//
// usage: hx-ast <in.rs> <out.json>
//
// The JSON is deliberately close to the syntax tree; all interpretation
// (pattern evaluation, flattening, table extraction) happens in rules/*.py.
use quote::ToTokens;
use serde_json::{json, Value};
use syn::*;

fn ts<T: ToTokens>(t: &T) -> String {
    // token string with normalised spacing
    let s = t.to_token_stream().to_string();
    s
}

fn path_str(p: &Path) -> String {
    let mut s = String::new();
    if p.leading_colon.is_some() {
        s.push_str("::");
    }
    let mut first = true;
    for seg in &p.segments {
        if !first {
            s.push_str("::");
        }
        first = false;
        s.push_str(&seg.ident.to_string());
    }
    s
}

fn path_generics(p: &Path) -> Value {
    // generic arguments of the last segment that has some, as strings
    for seg in p.segments.iter().rev() {
        if let PathArguments::AngleBracketed(a) = &seg.arguments {
            return Value::Array(a.args.iter().map(|x| Value::String(ts(x))).collect());
        }
    }
    Value::Null
}

fn lit(l: &Lit) -> Value {
    match l {
        Lit::Str(s) => json!({"k":"Lit","t":"str","v":s.value()}),
        Lit::ByteStr(s) => json!({"k":"Lit","t":"bytes","v":s.value()}),
        Lit::Byte(b) => json!({"k":"Lit","t":"byte","v":b.value()}),
        Lit::Char(c) => json!({"k":"Lit","t":"char","v":c.value().to_string()}),
        Lit::Int(i) => {
            let v: Value = match i.base10_parse::<u128>() {
                Ok(n) if n <= u64::MAX as u128 => json!(n as u64),
                Ok(n) => json!(n.to_string()),
                Err(_) => json!(i.to_string()),
            };
            json!({"k":"Lit","t":"int","v":v,"suffix":i.suffix()})
        },
        Lit::Float(f) => json!({"k":"Lit","t":"float","v":f.to_string()}),
        Lit::Bool(b) => json!({"k":"Lit","t":"bool","v":b.value}),
        Lit::CStr(c) => json!({"k":"Lit","t":"cstr","v":ts(c)}),
        other => json!({"k":"Lit","t":"verbatim","v":ts(other)}),
    }
}

fn pat(p: &Pat) -> Value {
    match p {
        Pat::Ident(i) => json!({"k":"PIdent","name":i.ident.to_string(),
            "byref":i.by_ref.is_some(),"mut":i.mutability.is_some(),
            "sub": i.subpat.as_ref().map(|(_,s)| pat(s))}),
        Pat::Lit(l) => json!({"k":"PLit","lit":lit(&l.lit)}),
        Pat::Or(o) => json!({"k":"POr","cases":o.cases.iter().map(pat).collect::<Vec<_>>()}),
        Pat::Paren(p) => pat(&p.pat),
        Pat::Path(p) => json!({"k":"PPath","path":path_str(&p.path)}),
        Pat::Range(r) => json!({"k":"PRange",
            "lo":r.start.as_ref().map(|e| expr(e)),
            "hi":r.end.as_ref().map(|e| expr(e)),
            "closed": matches!(r.limits, RangeLimits::Closed(_))}),
        Pat::Reference(r) => json!({"k":"PRef","pat":pat(&r.pat)}),
        Pat::Rest(_) => json!({"k":"PRest"}),
        Pat::Slice(s) => json!({"k":"PSlice","elems":s.elems.iter().map(pat).collect::<Vec<_>>()}),
        Pat::Struct(s) => json!({"k":"PStruct","path":path_str(&s.path),
            "fields": s.fields.iter().map(|f| json!({"name": ts(&f.member), "pat": pat(&f.pat)})).collect::<Vec<_>>(),
            "rest": s.rest.is_some()}),
        Pat::Tuple(t) => json!({"k":"PTuple","elems":t.elems.iter().map(pat).collect::<Vec<_>>()}),
        Pat::TupleStruct(t) => json!({"k":"PTupleStruct","path":path_str(&t.path),
            "elems":t.elems.iter().map(pat).collect::<Vec<_>>()}),
        Pat::Wild(_) => json!({"k":"PWild"}),
        Pat::Const(c) => json!({"k":"PConst","body":block(&c.block)}),
        Pat::Type(t) => pat(&t.pat),
        Pat::Macro(m) => json!({"k":"PMacro","path":path_str(&m.mac.path),"tokens":m.mac.tokens.to_string()}),
        other => json!({"k":"PVerbatim","text":ts(other)}),
    }
}

fn block(b: &Block) -> Value {
    Value::Array(b.stmts.iter().map(stmt).collect())
}

fn stmt(s: &Stmt) -> Value {
    match s {
        Stmt::Local(l) => {
            let (init, els) = match &l.init {
                Some(i) => (
                    Some(expr(&i.expr)),
                    i.diverge.as_ref().map(|(_, e)| expr(e)),
                ),
                None => (None, None),
            };
            let (p, ty) = match &l.pat {
                Pat::Type(t) => (pat(&t.pat), Some(ts(&t.ty))),
                other => (pat(other), None),
            };
            json!({"k":"Let","pat":p,"ty":ty,"init":init,"else":els})
        },
        Stmt::Item(i) => json!({"k":"ItemStmt","item":item_brief(i)}),
        Stmt::Expr(e, semi) => json!({"k":"ExprStmt","e":expr(e),"semi":semi.is_some()}),
        Stmt::Macro(m) => json!({"k":"ExprStmt","e":{"k":"Macro","path":path_str(&m.mac.path),"tokens":m.mac.tokens.to_string()},"semi":m.semi_token.is_some()}),
    }
}

fn item_brief(i: &Item) -> Value {
    match i {
        Item::Fn(f) => json!({"k":"Fn","name":f.sig.ident.to_string(),"sig":fn_sig(&f.sig),"body":block(&f.block)}),
        Item::Const(c) => json!({"k":"Const","name":c.ident.to_string(),"ty":ts(&c.ty),"init":expr(&c.expr)}),
        Item::Static(c) => json!({"k":"Static","name":c.ident.to_string(),"ty":ts(&c.ty),"init":expr(&c.expr)}),
        Item::Use(u) => json!({"k":"Use","text":ts(u)}),
        other => json!({"k":"OtherItem","text":ts(other).chars().take(200).collect::<String>()}),
    }
}

fn member(m: &Member) -> String {
    match m {
        Member::Named(i) => i.to_string(),
        Member::Unnamed(i) => i.index.to_string(),
    }
}

fn exprs<'a, I: Iterator<Item = &'a Expr>>(it: I) -> Value {
    Value::Array(it.map(expr).collect())
}

fn expr(e: &Expr) -> Value {
    match e {
        Expr::Array(a) => json!({"k":"Array","elems":exprs(a.elems.iter())}),
        Expr::Assign(a) => json!({"k":"Assign","lhs":expr(&a.left),"rhs":expr(&a.right)}),
        Expr::Binary(b) => json!({"k":"Binary","op":ts(&b.op),"l":expr(&b.left),"r":expr(&b.right)}),
        Expr::Block(b) => json!({"k":"Block","label":b.label.as_ref().map(|l| l.name.ident.to_string()),"body":block(&b.block)}),
        Expr::Break(b) => json!({"k":"Break","label":b.label.as_ref().map(|l| l.ident.to_string()),"e":b.expr.as_ref().map(|e| expr(e))}),
        Expr::Call(c) => json!({"k":"Call","f":expr(&c.func),"args":exprs(c.args.iter())}),
        Expr::Cast(c) => json!({"k":"Cast","e":expr(&c.expr),"ty":ts(&c.ty)}),
        Expr::Closure(c) => json!({"k":"Closure","params":c.inputs.iter().map(pat).collect::<Vec<_>>(),"body":expr(&c.body),"move":c.capture.is_some()}),
        Expr::Const(c) => json!({"k":"Block","label":Value::Null,"body":block(&c.block),"const":true}),
        Expr::Continue(c) => json!({"k":"Continue","label":c.label.as_ref().map(|l| l.ident.to_string())}),
        Expr::Field(f) => json!({"k":"Field","e":expr(&f.base),"name":member(&f.member)}),
        Expr::ForLoop(f) => json!({"k":"For","label":f.label.as_ref().map(|l| l.name.ident.to_string()),"pat":pat(&f.pat),"iter":expr(&f.expr),"body":block(&f.body)}),
        Expr::Group(g) => expr(&g.expr),
        Expr::If(i) => json!({"k":"If","cond":expr(&i.cond),"then":block(&i.then_branch),"else":i.else_branch.as_ref().map(|(_,e)| expr(e))}),
        Expr::Index(i) => json!({"k":"Index","e":expr(&i.expr),"i":expr(&i.index)}),
        Expr::Infer(_) => json!({"k":"Infer"}),
        Expr::Let(l) => json!({"k":"LetCond","pat":pat(&l.pat),"e":expr(&l.expr)}),
        Expr::Lit(l) => lit(&l.lit),
        Expr::Loop(l) => json!({"k":"Loop","label":l.label.as_ref().map(|l| l.name.ident.to_string()),"body":block(&l.body)}),
        Expr::Macro(m) => json!({"k":"Macro","path":path_str(&m.mac.path),"tokens":m.mac.tokens.to_string()}),
        Expr::Match(m) => json!({"k":"Match","e":expr(&m.expr),"arms":m.arms.iter().map(|a| json!({
            "pat":pat(&a.pat),"guard":a.guard.as_ref().map(|(_,g)| expr(g)),"body":expr(&a.body)})).collect::<Vec<_>>()}),
        Expr::MethodCall(m) => json!({"k":"MethodCall","recv":expr(&m.receiver),"m":m.method.to_string(),
            "turbofish": m.turbofish.as_ref().map(|t| ts(t)),
            "args":exprs(m.args.iter())}),
        Expr::Paren(p) => expr(&p.expr),
        Expr::Path(p) => json!({"k":"Path","path":path_str(&p.path),"generics":path_generics(&p.path),
            "qself": p.qself.as_ref().map(|q| ts(&q.ty))}),
        Expr::Range(r) => json!({"k":"Range","lo":r.start.as_ref().map(|e| expr(e)),"hi":r.end.as_ref().map(|e| expr(e)),
            "closed": matches!(r.limits, RangeLimits::Closed(_))}),
        Expr::RawAddr(r) => json!({"k":"RawAddr","e":expr(&r.expr)}),
        Expr::Reference(r) => json!({"k":"Ref","mut":r.mutability.is_some(),"e":expr(&r.expr)}),
        Expr::Repeat(r) => json!({"k":"Repeat","e":expr(&r.expr),"len":expr(&r.len)}),
        Expr::Return(r) => json!({"k":"Return","e":r.expr.as_ref().map(|e| expr(e))}),
        Expr::Struct(s) => json!({"k":"Struct","path":path_str(&s.path),
            "fields":s.fields.iter().map(|f| json!({"name":member(&f.member),"e":expr(&f.expr)})).collect::<Vec<_>>(),
            "rest":s.rest.as_ref().map(|e| expr(e))}),
        Expr::Try(t) => json!({"k":"Try","e":expr(&t.expr)}),
        Expr::Tuple(t) => json!({"k":"Tuple","elems":exprs(t.elems.iter())}),
        Expr::Unary(u) => json!({"k":"Unary","op":ts(&u.op),"e":expr(&u.expr)}),
        Expr::Unsafe(u) => json!({"k":"Block","label":Value::Null,"body":block(&u.block),"unsafe":true}),
        Expr::While(w) => json!({"k":"While","label":w.label.as_ref().map(|l| l.name.ident.to_string()),"cond":expr(&w.cond),"body":block(&w.body)}),
        other => json!({"k":"Verbatim","text":ts(other)}),
    }
}

fn attrs(a: &[Attribute]) -> Vec<String> {
    a.iter()
        .filter(|a| !a.path().is_ident("doc"))
        .map(|a| ts(&a.meta))
        .collect()
}

fn fn_sig(sig: &Signature) -> Value {
    let params: Vec<Value> = sig
        .inputs
        .iter()
        .map(|a| match a {
            FnArg::Receiver(r) => json!({"name":"self","ty":ts(&r.ty),"ref":r.reference.is_some(),"mut":r.mutability.is_some()}),
            FnArg::Typed(t) => json!({"pat":pat(&t.pat),"ty":ts(&t.ty)}),
        })
        .collect();
    json!({"params":params,"ret": match &sig.output { ReturnType::Default => Value::Null, ReturnType::Type(_, t) => Value::String(ts(t)) },
           "unsafe": sig.unsafety.is_some(), "generics": ts(&sig.generics), "where": sig.generics.where_clause.as_ref().map(|w| ts(w))})
}

fn vis(v: &Visibility) -> String {
    match v {
        Visibility::Public(_) => "pub".into(),
        Visibility::Restricted(r) => format!("pub({})", path_str(&r.path)),
        Visibility::Inherited => "".into(),
    }
}

fn fields(f: &Fields) -> Value {
    Value::Array(
        f.iter()
            .enumerate()
            .map(|(i, f)| {
                json!({"name": f.ident.as_ref().map(|i| i.to_string()).unwrap_or_else(|| i.to_string()),
                       "ty": ts(&f.ty), "vis": vis(&f.vis), "attrs": attrs(&f.attrs)})
            })
            .collect(),
    )
}

struct Out {
    items: Vec<Value>,
}

fn items(out: &mut Out, modpath: &str, its: &[Item]) {
    for it in its {
        match it {
            Item::Mod(m) => {
                if let Some((_, content)) = &m.content {
                    let mp = if modpath.is_empty() {
                        m.ident.to_string()
                    } else {
                        format!("{}::{}", modpath, m.ident)
                    };
                    out.items.push(json!({"k":"Mod","mod":modpath,"name":m.ident.to_string(),"attrs":attrs(&m.attrs)}));
                    items(out, &mp, content);
                }
            },
            Item::Fn(f) => out.items.push(json!({
                "k":"Fn","mod":modpath,"name":f.sig.ident.to_string(),"self_ty":Value::Null,"trait":Value::Null,
                "vis":vis(&f.vis),"sig":fn_sig(&f.sig),"attrs":attrs(&f.attrs),"body":block(&f.block)})),
            Item::Impl(im) => {
                let self_ty = ts(&im.self_ty);
                let tr = im.trait_.as_ref().map(|(neg, p, _)| {
                    format!("{}{}", if neg.is_some() { "!" } else { "" }, ts(p))
                });
                out.items.push(json!({"k":"Impl","mod":modpath,"self_ty":self_ty,"trait":tr,
                    "unsafe":im.unsafety.is_some(),"generics":ts(&im.generics),
                    "where": im.generics.where_clause.as_ref().map(|w| ts(w)),"attrs":attrs(&im.attrs)}));
                for ii in &im.items {
                    match ii {
                        ImplItem::Fn(f) => out.items.push(json!({
                            "k":"Fn","mod":modpath,"name":f.sig.ident.to_string(),"self_ty":self_ty,"trait":tr,
                            "vis":vis(&f.vis),"sig":fn_sig(&f.sig),"attrs":attrs(&f.attrs),"body":block(&f.block)})),
                        ImplItem::Const(c) => out.items.push(json!({
                            "k":"Const","mod":modpath,"name":c.ident.to_string(),"self_ty":self_ty,
                            "ty":ts(&c.ty),"init":expr(&c.expr)})),
                        _ => {},
                    }
                }
            },
            Item::Trait(t) => {
                out.items.push(json!({"k":"Trait","mod":modpath,"name":t.ident.to_string(),"unsafe":t.unsafety.is_some()}));
                for ti in &t.items {
                    if let TraitItem::Fn(f) = ti {
                        out.items.push(json!({
                            "k":"Fn","mod":modpath,"name":f.sig.ident.to_string(),"self_ty":Value::Null,
                            "trait":t.ident.to_string(),"in_trait_decl":true,
                            "vis":"","sig":fn_sig(&f.sig),"attrs":attrs(&f.attrs),
                            "body": f.default.as_ref().map(block)}));
                    }
                }
            },
            Item::Const(c) => out.items.push(json!({"k":"Const","mod":modpath,"name":c.ident.to_string(),"self_ty":Value::Null,
                "ty":ts(&c.ty),"init":expr(&c.expr)})),
            Item::Static(c) => out.items.push(json!({"k":"Static","mod":modpath,"name":c.ident.to_string(),
                "ty":ts(&c.ty),"init":expr(&c.expr)})),
            Item::Struct(s) => out.items.push(json!({"k":"Struct","mod":modpath,"name":s.ident.to_string(),
                "generics":ts(&s.generics),"fields":fields(&s.fields),"attrs":attrs(&s.attrs)})),
            Item::Enum(e) => out.items.push(json!({"k":"Enum","mod":modpath,"name":e.ident.to_string(),
                "generics":ts(&e.generics),"attrs":attrs(&e.attrs),
                "variants": e.variants.iter().map(|v| json!({"name":v.ident.to_string(),"fields":fields(&v.fields)})).collect::<Vec<_>>()})),
            Item::Macro(m) => out.items.push(json!({"k":"MacroItem","mod":modpath,
                "name": m.ident.as_ref().map(|i| i.to_string()),"path":path_str(&m.mac.path),
                "tokens": m.mac.tokens.to_string()})),
            Item::Use(u) => out.items.push(json!({"k":"Use","mod":modpath,"text":ts(u)})),
            _ => {},
        }
    }
}

fn main() {
    let a: Vec<String> = std::env::args().collect();
    if a.len() != 3 {
        eprintln!("usage: hx-ast <in.rs> <out.json>");
        std::process::exit(2);
    }
    let src = std::fs::read_to_string(&a[1]).expect("read");
    let file = match syn::parse_file(&src) {
        Ok(f) => f,
        Err(e) => {
            eprintln!("hx-ast: parse error in {}: {}", a[1], e);
            std::process::exit(3);
        },
    };
    let mut out = Out { items: vec![] };
    items(&mut out, "", &file.items);
    let v = json!({"file": a[1], "items": out.items});
    std::fs::write(&a[2], serde_json::to_string(&v).unwrap()).expect("write");
}
