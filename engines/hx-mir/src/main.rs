// hx-mir: rustc_private driver used as RUSTC_WORKSPACE_WRAPPER.
//
// For every workspace library crate compiled by `cargo +nightly check`, it
//   * re-runs the real rustc with `-Zunpretty=expanded` and stores the macro
//     expanded source in $HX_OUT/<crate>.expanded.rs          (fact base E1)
//   * runs the compiler with callbacks and, after analysis, writes the MIR
//     facts of every body of the crate to $HX_OUT/<crate>.mir.json (E3).
//
// One file per process, written once (parallel crates never interleave).
#![feature(rustc_private)]

extern crate rustc_abi;
extern crate rustc_driver;
extern crate rustc_hir;
extern crate rustc_interface;
extern crate rustc_middle;
extern crate rustc_span;

use rustc_driver::Compilation;
use rustc_hir::def::DefKind;
use rustc_hir::def_id::{DefId, LOCAL_CRATE};
use rustc_middle::mir::{
    AggregateKind, BasicBlockData, Body, CastKind, Const, ConstValue, Operand, Place,
    ProjectionElem, Rvalue, StatementKind, TerminatorKind, UnwindAction,
};
use rustc_middle::ty::{self, Instance, TyCtxt, TypeVisitableExt, TypingEnv};
use rustc_span::Span;
use std::fmt::Write as _;

fn esc(s: &str) -> String {
    let mut o = String::with_capacity(s.len() + 2);
    o.push('"');
    for c in s.chars() {
        match c {
            '"' => o.push_str("\\\""),
            '\\' => o.push_str("\\\\"),
            '\n' => o.push_str("\\n"),
            '\r' => o.push_str("\\r"),
            '\t' => o.push_str("\\t"),
            c if (c as u32) < 0x20 => {
                let _ = write!(o, "\\u{:04x}", c as u32);
            },
            c => o.push(c),
        }
    }
    o.push('"');
    o
}

struct Cx<'tcx> {
    tcx: TyCtxt<'tcx>,
}

impl<'tcx> Cx<'tcx> {
    fn loc(&self, sp: Span) -> (String, usize, bool) {
        let exp = sp.from_expansion();
        // the call site in user code, for readers
        let sp2 = sp.source_callsite();
        let sm = self.tcx.sess.source_map();
        let lo = sm.lookup_char_pos(sp2.lo());
        let f = match &lo.file.name {
            rustc_span::FileName::Real(r) => match r.local_path() {
                Some(p) => p.display().to_string(),
                None => format!("{:?}", r),
            },
            other => format!("{:?}", other),
        };
        (f, lo.line, exp)
    }

    fn stable_id(&self, d: DefId) -> String {
        format!(
            "{}{}",
            self.tcx.crate_name(d.krate),
            self.tcx.def_path(d).to_string_no_crate_verbose()
        )
    }

    fn place(&self, body: &Body<'tcx>, p: &Place<'tcx>) -> String {
        // [local, [proj...]]
        let mut s = format!("[{},[", p.local.as_usize());
        let mut first = true;
        for (pref, elem) in p.iter_projections() {
            if !first {
                s.push(',');
            }
            first = false;
            match elem {
                ProjectionElem::Deref => s.push_str("\"*\""),
                ProjectionElem::Field(f, _) => {
                    let pty = pref.ty(body, self.tcx);
                    let name = match pty.ty.kind() {
                        ty::Adt(def, _) => {
                            let v = match pty.variant_index {
                                Some(v) => def.variant(v),
                                None => def.non_enum_variant(),
                            };
                            v.fields[f].name.to_string()
                        },
                        _ => format!("{}", f.as_usize()),
                    };
                    s.push_str(&esc(&format!(".{}", name)));
                },
                ProjectionElem::Downcast(name, idx) => {
                    let n = match name {
                        Some(n) => n.to_string(),
                        None => format!("{}", idx.as_usize()),
                    };
                    s.push_str(&esc(&format!("as {}", n)));
                },
                ProjectionElem::Index(l) => s.push_str(&esc(&format!("[_{}]", l.as_usize()))),
                ProjectionElem::ConstantIndex {
                    offset, from_end, ..
                } => s.push_str(&esc(&format!(
                    "[{}{}]",
                    if from_end { "-" } else { "" },
                    offset
                ))),
                ProjectionElem::Subslice { from, to, from_end } => s.push_str(&esc(&format!(
                    "[{}..{}{}]",
                    from,
                    if from_end { "-" } else { "" },
                    to
                ))),
                ProjectionElem::OpaqueCast(_) => s.push_str("\"opaque\""),
                ProjectionElem::UnwrapUnsafeBinder(_) => s.push_str("\"unbinder\""),
            }
        }
        s.push_str("]]");
        s
    }

    fn fn_ref(&self, owner: DefId, def_id: DefId, args: ty::GenericArgsRef<'tcx>) -> String {
        let tcx = self.tcx;
        let path = tcx.def_path_str(def_id);
        let mut s = format!("{{\"path\":{},\"id\":{}", esc(&path), esc(&self.stable_id(def_id)));
        let _ = write!(s, ",\"args\":{}", esc(&format!("{:?}", args)));
        if let Some(tr) = tcx.trait_of_assoc(def_id) {
            let _ = write!(s, ",\"trait\":{}", esc(&tcx.def_path_str(tr)));
            // self type of the trait call
            if !args.is_empty() {
                if let Some(t) = args[0].as_type() {
                    let _ = write!(s, ",\"self_ty\":{}", esc(&format!("{}", t)));
                }
            }
            let env = TypingEnv::post_analysis(tcx, owner);
            if !args.has_escaping_bound_vars() {
                if let Ok(Some(inst)) = Instance::try_resolve(tcx, env, def_id, args) {
                    let rid = inst.def_id();
                    if rid != def_id {
                        let _ = write!(s, ",\"resolved\":{},\"resolved_id\":{}", esc(&tcx.def_path_str(rid)), esc(&self.stable_id(rid)));
                    }
                }
            }
        } else if let Some(imp) = tcx.impl_of_assoc(def_id) {
            let st = tcx.type_of(imp).instantiate_identity().skip_norm_wip();
            let _ = write!(s, ",\"impl_self\":{}", esc(&format!("{}", st)));
        }
        let _ = write!(s, ",\"krate\":{}", esc(tcx.crate_name(def_id.krate).as_str()));
        s.push('}');
        s
    }

    fn constant(&self, owner: DefId, c: &Const<'tcx>) -> String {
        let tcx = self.tcx;
        let ty = c.ty();
        if let ty::FnDef(def_id, args) = ty.kind() {
            return format!("[\"fn\",{}]", self.fn_ref(owner, *def_id, args));
        }
        let tys = format!("{}", ty);
        // scalar ints
        let env = TypingEnv::post_analysis(tcx, owner);
        let val: Option<String> = (|| {
            match c {
                Const::Val(ConstValue::Scalar(sc), _) => {
                    if let Ok(i) = sc.try_to_scalar_int() {
                        let bits = i.to_bits_unchecked();
                        return Some(match ty.kind() {
                            ty::Bool => format!("{}", bits != 0),
                            ty::Char => match char::from_u32(bits as u32) {
                                Some(ch) => esc(&ch.to_string()),
                                None => format!("{}", bits),
                            },
                            ty::Int(_) => {
                                let size = i.size();
                                format!("{}", size.sign_extend(bits))
                            },
                            _ => format!("{}", bits),
                        });
                    }
                    None
                },
                Const::Val(ConstValue::ZeroSized, _) => Some("null".to_string()),
                Const::Val(cv @ ConstValue::Slice { .. }, _) => {
                    // string / byte-string literal
                    if let Some(bytes) = cv.try_get_slice_bytes_for_diagnostics(tcx) {
                        return Some(match std::str::from_utf8(bytes) {
                            Ok(st) => esc(st),
                            Err(_) => esc(&format!("{:?}", bytes)),
                        });
                    }
                    None
                },
                _ => {
                    let _ = env;
                    None
                },
            }
        })();
        match val {
            Some(v) => format!("[\"k\",{},{}]", v, esc(&tys)),
            None => format!("[\"k?\",{},{}]", esc(&format!("{}", c)), esc(&tys)),
        }
    }

    fn operand(&self, owner: DefId, body: &Body<'tcx>, o: &Operand<'tcx>) -> String {
        match o {
            Operand::Copy(p) => format!("[\"c\",{}]", self.place(body, p)),
            Operand::Move(p) => format!("[\"m\",{}]", self.place(body, p)),
            Operand::Constant(c) => self.constant(owner, &c.const_),
            #[allow(unreachable_patterns)]
            _ => "[\"k?\",\"runtime-checks\",\"bool\"]".to_string(),
        }
    }

    fn rvalue(&self, owner: DefId, body: &Body<'tcx>, rv: &Rvalue<'tcx>) -> String {
        let ops = |v: Vec<&Operand<'tcx>>| -> String {
            let parts: Vec<String> = v.iter().map(|o| self.operand(owner, body, o)).collect();
            format!("[{}]", parts.join(","))
        };
        match rv {
            Rvalue::Use(o, ..) => format!("{{\"k\":\"use\",\"ops\":{}}}", ops(vec![o])),
            Rvalue::Repeat(o, _) => format!("{{\"k\":\"repeat\",\"ops\":{}}}", ops(vec![o])),
            Rvalue::Ref(_, bk, p) => format!(
                "{{\"k\":\"ref\",\"mut\":{},\"place\":{}}}",
                matches!(bk, rustc_middle::mir::BorrowKind::Mut { .. }),
                self.place(body, p)
            ),
            Rvalue::RawPtr(k, p) => format!(
                "{{\"k\":\"rawptr\",\"mut\":{},\"place\":{}}}",
                esc(&format!("{:?}", k)),
                self.place(body, p)
            ),
            Rvalue::ThreadLocalRef(d) => format!(
                "{{\"k\":\"tls\",\"path\":{}}}",
                esc(&self.tcx.def_path_str(*d))
            ),
            Rvalue::Cast(kind, o, t) => {
                let kk = match kind {
                    CastKind::Transmute => "transmute".to_string(),
                    other => format!("{:?}", other),
                };
                let from = o.ty(body, self.tcx);
                format!(
                    "{{\"k\":\"cast\",\"cast\":{},\"ops\":{},\"from\":{},\"to\":{}}}",
                    esc(&kk),
                    ops(vec![o]),
                    esc(&format!("{}", from)),
                    esc(&format!("{}", t))
                )
            },
            Rvalue::BinaryOp(op, b) => format!(
                "{{\"k\":\"binop\",\"op\":{},\"ops\":{}}}",
                esc(&format!("{:?}", op)),
                ops(vec![&b.0, &b.1])
            ),
            Rvalue::UnaryOp(op, o) => format!(
                "{{\"k\":\"unop\",\"op\":{},\"ops\":{}}}",
                esc(&format!("{:?}", op)),
                ops(vec![o])
            ),
            Rvalue::Discriminant(p) => {
                format!("{{\"k\":\"discr\",\"place\":{}}}", self.place(body, p))
            },
            Rvalue::Aggregate(kind, fields) => {
                let (kname, extra) = match &**kind {
                    AggregateKind::Array(_) => ("array".to_string(), String::new()),
                    AggregateKind::Tuple => ("tuple".to_string(), String::new()),
                    AggregateKind::Adt(did, vidx, _, _, _) => {
                        let def = self.tcx.adt_def(*did);
                        let v = def.variant(*vidx);
                        let names: Vec<String> =
                            v.fields.iter().map(|f| esc(f.name.as_str())).collect();
                        (
                            "adt".to_string(),
                            format!(
                                ",\"adt\":{},\"variant\":{},\"fields\":[{}]",
                                esc(&self.tcx.def_path_str(*did)),
                                esc(v.name.as_str()),
                                names.join(",")
                            ),
                        )
                    },
                    AggregateKind::Closure(did, _) => (
                        "closure".to_string(),
                        format!(",\"closure\":{}", esc(&self.tcx.def_path_str(*did))),
                    ),
                    other => (format!("{:?}", other), String::new()),
                };
                let v: Vec<&Operand<'tcx>> = fields.iter().collect();
                format!(
                    "{{\"k\":\"aggregate\",\"agg\":{}{},\"ops\":{}}}",
                    esc(&kname),
                    extra,
                    ops(v)
                )
            },
            Rvalue::CopyForDeref(p) => format!(
                "{{\"k\":\"use\",\"ops\":[[\"c\",{}]]}}",
                self.place(body, p)
            ),
            other => format!("{{\"k\":\"other\",\"text\":{}}}", esc(&format!("{:?}", other))),
        }
    }

    fn block(&self, owner: DefId, body: &Body<'tcx>, bb: &BasicBlockData<'tcx>) -> String {
        let mut s = String::from("{\"s\":[");
        let mut first = true;
        for st in &bb.statements {
            let item = match &st.kind {
                StatementKind::Assign(b) => {
                    let (p, rv) = &**b;
                    let (_, line, exp) = self.loc(st.source_info.span);
                    Some(format!(
                        "[\"=\",{},{},{},{}]",
                        self.place(body, p),
                        self.rvalue(owner, body, rv),
                        line,
                        if exp { 1 } else { 0 }
                    ))
                },
                StatementKind::SetDiscriminant {
                    place,
                    variant_index,
                } => Some(format!(
                    "[\"setdiscr\",{},{}]",
                    self.place(body, place),
                    variant_index.as_usize()
                )),
                StatementKind::Intrinsic(i) => {
                    Some(format!("[\"intrinsic\",{}]", esc(&format!("{:?}", i))))
                },
                _ => None,
            };
            if let Some(it) = item {
                if !first {
                    s.push(',');
                }
                first = false;
                s.push_str(&it);
            }
        }
        s.push_str("],\"t\":");
        let term = bb.terminator();
        let (_, line, exp) = self.loc(term.source_info.span);
        let unw = |u: &UnwindAction| -> String {
            match u {
                UnwindAction::Cleanup(b) => format!("{}", b.as_usize()),
                _ => "null".to_string(),
            }
        };
        let t = match &term.kind {
            TerminatorKind::Goto { target } => {
                format!("{{\"k\":\"goto\",\"to\":[{}]", target.as_usize())
            },
            TerminatorKind::SwitchInt { discr, targets } => {
                let mut vals = vec![];
                let mut tos = vec![];
                for (v, t) in targets.iter() {
                    vals.push(format!("{}", v));
                    tos.push(format!("{}", t.as_usize()));
                }
                tos.push(format!("{}", targets.otherwise().as_usize()));
                let dty = discr.ty(body, self.tcx);
                format!(
                    "{{\"k\":\"switch\",\"discr\":{},\"dty\":{},\"vals\":[{}],\"to\":[{}]",
                    self.operand(owner, body, discr),
                    esc(&format!("{}", dty)),
                    vals.join(","),
                    tos.join(",")
                )
            },
            TerminatorKind::Return => "{\"k\":\"return\",\"to\":[]".to_string(),
            TerminatorKind::Unreachable => "{\"k\":\"unreachable\",\"to\":[]".to_string(),
            TerminatorKind::UnwindResume => "{\"k\":\"resume\",\"to\":[]".to_string(),
            TerminatorKind::UnwindTerminate(_) => "{\"k\":\"terminate\",\"to\":[]".to_string(),
            TerminatorKind::Drop {
                place,
                target,
                unwind,
                ..
            } => format!(
                "{{\"k\":\"drop\",\"place\":{},\"pty\":{},\"to\":[{}],\"unwind\":{}",
                self.place(body, place),
                esc(&format!("{}", place.ty(body, self.tcx).ty)),
                target.as_usize(),
                unw(unwind)
            ),
            TerminatorKind::Call {
                func,
                args,
                destination,
                target,
                unwind,
                ..
            } => {
                let f = match func {
                    Operand::Constant(c) => self.constant(owner, &c.const_),
                    o => self.operand(owner, body, o),
                };
                let a: Vec<String> = args
                    .iter()
                    .map(|a| self.operand(owner, body, &a.node))
                    .collect();
                let aty: Vec<String> = args
                    .iter()
                    .map(|a| esc(&format!("{}", a.node.ty(body, self.tcx))))
                    .collect();
                let to = match target {
                    Some(t) => format!("{}", t.as_usize()),
                    None => String::new(),
                };
                format!(
                    "{{\"k\":\"call\",\"f\":{},\"a\":[{}],\"aty\":[{}],\"dest\":{},\"to\":[{}],\"unwind\":{}",
                    f,
                    a.join(","),
                    aty.join(","),
                    self.place(body, destination),
                    to,
                    unw(unwind)
                )
            },
            TerminatorKind::Assert {
                cond,
                expected,
                msg,
                target,
                unwind,
            } => {
                let kind = {
                    use rustc_middle::mir::AssertKind::*;
                    match &**msg {
                        BoundsCheck { .. } => "bounds".to_string(),
                        Overflow(op, ..) => format!("overflow:{:?}", op),
                        OverflowNeg(_) => "overflow:Neg".to_string(),
                        DivisionByZero(_) => "div0".to_string(),
                        RemainderByZero(_) => "rem0".to_string(),
                        MisalignedPointerDereference { .. } => "misaligned".to_string(),
                        NullPointerDereference => "nullptr".to_string(),
                        other => format!("{:?}", std::mem::discriminant(other)),
                    }
                };
                let opnds: Vec<String> = {
                    use rustc_middle::mir::AssertKind::*;
                    match &**msg {
                        BoundsCheck { len, index } => vec![
                            self.operand(owner, body, len),
                            self.operand(owner, body, index),
                        ],
                        Overflow(_, a, b) => {
                            vec![self.operand(owner, body, a), self.operand(owner, body, b)]
                        },
                        _ => vec![],
                    }
                };
                format!(
                    "{{\"k\":\"assert\",\"cond\":{},\"expected\":{},\"msg\":{},\"mops\":[{}],\"to\":[{}],\"unwind\":{}",
                    self.operand(owner, body, cond),
                    expected,
                    esc(&kind),
                    opnds.join(","),
                    target.as_usize(),
                    unw(unwind)
                )
            },
            TerminatorKind::FalseEdge { real_target, .. } => {
                format!("{{\"k\":\"goto\",\"to\":[{}]", real_target.as_usize())
            },
            TerminatorKind::FalseUnwind { real_target, .. } => {
                format!("{{\"k\":\"goto\",\"to\":[{}]", real_target.as_usize())
            },
            other => format!(
                "{{\"k\":\"other\",\"text\":{},\"to\":[{}]",
                esc(&format!("{:?}", other)),
                other
                    .successors()
                    .map(|b| format!("{}", b.as_usize()))
                    .collect::<Vec<_>>()
                    .join(",")
            ),
        };
        s.push_str(&t);
        let _ = write!(s, ",\"l\":{},\"x\":{}}}", line, if exp { 1 } else { 0 });
        if bb.is_cleanup {
            s.push_str(",\"cleanup\":1");
        }
        s.push('}');
        s
    }

    fn function(&self, def_id: DefId) -> Option<String> {
        let tcx = self.tcx;
        let kind = tcx.def_kind(def_id);
        let is_fn = matches!(kind, DefKind::Fn | DefKind::AssocFn | DefKind::Closure);
        if !is_fn {
            return None;
        }
        if !tcx.is_mir_available(def_id) {
            return None;
        }
        let body: &Body<'tcx> = tcx.optimized_mir(def_id);
        let (file, line, exp) = self.loc(tcx.def_span(def_id));
        let path = tcx.def_path_str(def_id);
        let mut s = format!(
            "{{\"path\":{},\"id\":{},\"file\":{},\"line\":{},\"exp\":{},\"kind\":{}",
            esc(&path),
            esc(&self.stable_id(def_id)),
            esc(&file),
            line,
            exp,
            esc(&format!("{:?}", kind))
        );
        if matches!(kind, DefKind::Fn | DefKind::AssocFn) {
            let sig = tcx.fn_sig(def_id).instantiate_identity().skip_norm_wip();
            let _ = write!(s, ",\"unsafe\":{}", sig.safety().is_unsafe());
            let _ = write!(s, ",\"vis\":{}", esc(&format!("{:?}", tcx.visibility(def_id))));
            let _ = write!(s, ",\"sig\":{}", esc(&format!("{}", sig)));
            if let Some(imp) = tcx.impl_of_assoc(def_id) {
                let st = tcx.type_of(imp).instantiate_identity().skip_norm_wip();
                let _ = write!(s, ",\"impl_self\":{}", esc(&format!("{}", st)));
                if let Some(tr) = tcx.impl_opt_trait_ref(imp) {
                    let tr = tr.instantiate_identity().skip_norm_wip();
                    let _ = write!(
                        s,
                        ",\"impl_trait\":{}",
                        esc(&tcx.def_path_str(tr.def_id))
                    );
                }
            } else if let Some(tr) = tcx.trait_of_assoc(def_id) {
                let _ = write!(s, ",\"in_trait\":{}", esc(&tcx.def_path_str(tr)));
            }
        }
        if kind == DefKind::Closure {
            let parent = tcx.typeck_root_def_id(def_id);
            let _ = write!(s, ",\"closure_of\":{}", esc(&tcx.def_path_str(parent)));
        }
        let _ = write!(s, ",\"argc\":{}", body.arg_count);
        // locals
        s.push_str(",\"locals\":[");
        let mut names: Vec<Option<String>> = vec![None; body.local_decls.len()];
        let mut upvars: Vec<String> = vec![];
        for vdi in &body.var_debug_info {
            if let rustc_middle::mir::VarDebugInfoContents::Place(p) = &vdi.value {
                if p.projection.is_empty() {
                    names[p.local.as_usize()] = Some(vdi.name.to_string());
                } else {
                    upvars.push(format!(
                        "[{},{}]",
                        esc(vdi.name.as_str()),
                        self.place(body, p)
                    ));
                }
            }
        }
        for (i, d) in body.local_decls.iter().enumerate() {
            if i > 0 {
                s.push(',');
            }
            let _ = write!(s, "[{}", esc(&format!("{}", d.ty)));
            match &names[i] {
                Some(n) => {
                    let _ = write!(s, ",{}]", esc(n));
                },
                None => s.push_str(",null]"),
            }
        }
        s.push_str("],\"upvars\":[");
        s.push_str(&upvars.join(","));
        s.push_str("],\"blocks\":[");
        for (i, bb) in body.basic_blocks.iter().enumerate() {
            if i > 0 {
                s.push(',');
            }
            s.push_str(&self.block(def_id, body, bb));
        }
        s.push_str("]}");
        Some(s)
    }

    fn adts_and_impls(&self) -> (String, String, String) {
        let tcx = self.tcx;
        let mut adts = vec![];
        let mut impls = vec![];
        let mut statics = vec![];
        for id in tcx.hir_free_items() {
            let did: DefId = id.owner_id.to_def_id();
            match tcx.def_kind(did) {
                DefKind::Struct | DefKind::Enum | DefKind::Union => {
                    let def = tcx.adt_def(did);
                    let mut vs = vec![];
                    for v in def.variants() {
                        let fs: Vec<String> = v
                            .fields
                            .iter()
                            .map(|f| {
                                let t = tcx.type_of(f.did).instantiate_identity().skip_norm_wip();
                                format!(
                                    "[{},{},{}]",
                                    esc(f.name.as_str()),
                                    esc(&format!("{}", t)),
                                    esc(&format!("{:?}", f.vis))
                                )
                            })
                            .collect();
                        vs.push(format!(
                            "{{\"name\":{},\"fields\":[{}]}}",
                            esc(v.name.as_str()),
                            fs.join(",")
                        ));
                    }
                    let (file, line, exp) = self.loc(tcx.def_span(did));
                    adts.push(format!(
                        "{{\"path\":{},\"kind\":{},\"file\":{},\"line\":{},\"exp\":{},\"variants\":[{}]}}",
                        esc(&tcx.def_path_str(did)),
                        esc(&format!("{:?}", tcx.def_kind(did))),
                        esc(&file),
                        line,
                        exp,
                        vs.join(",")
                    ));
                },
                DefKind::Impl { .. } => {
                    let st = tcx.type_of(did).instantiate_identity().skip_norm_wip();
                    let (file, line, exp) = self.loc(tcx.def_span(did));
                    let (tr, pol, uns) = match tcx.impl_opt_trait_ref(did) {
                        Some(t) => {
                            let t = t.instantiate_identity().skip_norm_wip();
                            let h = tcx.impl_trait_header(did);
                            (
                                esc(&tcx.def_path_str(t.def_id)),
                                format!("{:?}", h.polarity),
                                h.safety.is_unsafe(),
                            )
                        },
                        None => ("null".to_string(), "Inherent".to_string(), false),
                    };
                    impls.push(format!(
                        "{{\"self_ty\":{},\"trait\":{},\"polarity\":{},\"unsafe\":{},\"file\":{},\"line\":{},\"exp\":{}}}",
                        esc(&format!("{}", st)),
                        tr,
                        esc(&pol),
                        uns,
                        esc(&file),
                        line,
                        exp
                    ));
                },
                DefKind::Static { .. } => {
                    let t = tcx.type_of(did).instantiate_identity().skip_norm_wip();
                    statics.push(format!(
                        "{{\"path\":{},\"ty\":{}}}",
                        esc(&tcx.def_path_str(did)),
                        esc(&format!("{}", t))
                    ));
                },
                _ => {},
            }
        }
        (adts.join(",\n"), impls.join(",\n"), statics.join(",\n"))
    }
}

struct Dump {
    out: String,
}

impl rustc_driver::Callbacks for Dump {
    fn after_analysis<'tcx>(
        &mut self,
        _compiler: &rustc_interface::interface::Compiler,
        tcx: TyCtxt<'tcx>,
    ) -> Compilation {
        let cx = Cx { tcx };
        let krate = tcx.crate_name(LOCAL_CRATE).to_string();
        let mut fns = vec![];
        for ldid in tcx.mir_keys(()) {
            if let Some(f) = cx.function(ldid.to_def_id()) {
                fns.push(f);
            }
        }
        let (adts, impls, statics) = cx.adts_and_impls();
        let s = format!(
            "{{\"crate\":{},\"fns\":[\n{}\n],\"adts\":[\n{}\n],\"impls\":[\n{}\n],\"statics\":[\n{}\n]}}\n",
            esc(&krate),
            fns.join(",\n"),
            adts,
            impls,
            statics
        );
        let path = format!("{}/{}.mir.json", self.out, krate);
        std::fs::write(&path, s).expect("hx-mir: cannot write facts");
        Compilation::Continue
    }
}

struct Plain;
impl rustc_driver::Callbacks for Plain {}

fn main() {
    let mut args: Vec<String> = std::env::args().collect();
    // as a cargo wrapper: argv[1] is the real rustc
    let real_rustc = if args.len() > 1 && (args[1].ends_with("rustc") || args[1].contains("/rustc"))
    {
        Some(args.remove(1))
    } else {
        None
    };
    let out = std::env::var("HX_OUT").ok();
    let crate_name = args
        .iter()
        .position(|a| a == "--crate-name")
        .and_then(|i| args.get(i + 1))
        .cloned();
    let is_lib = args.windows(2).any(|w| w[0] == "--crate-type" && (w[1] == "lib" || w[1] == "rlib"))
        || args.iter().any(|a| a == "--crate-type=lib");
    let is_test = args.iter().any(|a| a == "--test");
    let wanted = match (&out, &crate_name) {
        (Some(_), Some(n)) => is_lib && !is_test && n != "build_script_build" && n != "___",
        _ => false,
    };
    if wanted {
        let out = out.unwrap();
        let name = crate_name.unwrap();
        // E1: expanded source, produced by the real rustc with the build's own flags
        if let Some(r) = &real_rustc {
            let mut a2: Vec<String> = args[1..]
                .iter()
                .filter(|a| !a.starts_with("--emit") && !a.starts_with("--error-format") && !a.starts_with("--json"))
                .cloned()
                .collect();
            a2.push("-Zunpretty=expanded".to_string());
            let res = std::process::Command::new(r)
                .args(&a2)
                .stderr(std::process::Stdio::null())
                .output();
            match res {
                Ok(o) if o.status.success() => {
                    std::fs::write(format!("{}/{}.expanded.rs", out, name), o.stdout)
                        .expect("hx-mir: cannot write expansion");
                },
                _ => {
                    let _ = std::fs::write(format!("{}/{}.expanded.FAILED", out, name), b"failed");
                },
            }
        }
        let mut cb = Dump { out };
        rustc_driver::run_compiler(&args, &mut cb);
    } else {
        rustc_driver::run_compiler(&args, &mut Plain);
    }
}
